"""C02 -- names resolve by documented source precedence; block bindings are
scoped.

R1 order of namespace pushes in the template call = documented precedence
R2 construction: keyword defaults beat the construction mapping; '_' filter
R3 auto-call flag: expressions fetch uncalled, tags fetch called
R4 lookup direction agrees with the push end
R5 block bindings are popped on every normal exit (C08 engine)
"""
import ast

from ..core import AnalysisError
from ..core import RuleResult
from ..core import norm
from ..flow import BaseState
from ..flow import Domain
from ..flow import Interp
from ..model import ancestors
from ..model import own_nodes

RANK = {'SHARED': 0, 'GLOBALS': 1, 'MAPPING': 2, 'CLIENT': 3, 'VARS': 4,
        'KW': 5}


class PS(BaseState):
    __slots__ = ('top', 'sub', 'trace', 'cur_exc')

    def __init__(self):
        self.top = -1
        self.sub = None
        self.trace = ()
        self.cur_exc = None

    def key(self):
        return (self.top, self.sub)

    def copy(self):
        n = PS()
        n.top, n.sub, n.trace = self.top, self.sub, self.trace
        return n


class PushOrder(Domain):
    def __init__(self, model, fi):
        self.model = model
        self.fi = fi
        self.sites = {}
        a = fi.node.args
        self.kw = a.kwarg.arg if a.kwarg else None
        params = fi.params()
        self.client_param = params[1] if len(params) > 1 else None
        self.mapping_param = params[2] if len(params) > 2 else None
        self.aliases = set()
        for n in own_nodes(fi.node):
            if isinstance(n, ast.Assign) and \
                    isinstance(n.value, ast.Attribute) and \
                    n.value.attr == '_push' and \
                    isinstance(n.targets[0], ast.Name):
                self.aliases.add(n.targets[0].id)

    def classify(self, e, depth=0):
        fi = self.fi
        if depth > 4:
            return None
        if isinstance(e, ast.Attribute) and isinstance(e.value, ast.Name) \
                and e.value.id == 'self':
            return {'shared_globals': 'SHARED', 'globals': 'GLOBALS',
                    '_vars': 'VARS'}.get(e.attr)
        if isinstance(e, ast.Name):
            if e.id == self.kw:
                return 'KW'
            defs = self.model.local_defs(fi, e.id)
            if e.id == self.mapping_param:
                # re-assignments of the parameter keep its role:
                # mapping = {} / mapping.taintWrapper()
                return 'MAPPING'
            kinds = set()
            for d in defs:
                if d == 'param' or isinstance(d, tuple):
                    return None
                kinds.add(self.classify(d, depth + 1))
            if len(kinds) == 1:
                return kinds.pop()
            return None
        if isinstance(e, ast.Call):
            names = self.model.callee_names(e, fi)
            if any(n.endswith(':InstanceDict') for n in names) and e.args:
                a0 = e.args[0]
                if isinstance(a0, ast.Name):
                    if a0.id == self.client_param:
                        return 'CLIENT'
                    for d in self.model.local_defs(fi, a0.id):
                        if isinstance(d, tuple) and d[0] == 'iter' and \
                                self.client_path(d[1]):
                            return 'CLIENT'
        return None

    def client_path(self, e, depth=0):
        """Is e the client parameter, a 1-tuple of it, or a local whose
        every definition is one of those (the client path in the order
        given)?"""
        if depth > 3:
            return False
        if isinstance(e, ast.Name):
            if e.id == self.client_param:
                return True
            defs = [d for d in self.model.local_defs(self.fi, e.id)]
            return bool(defs) and all(
                not isinstance(d, (str, tuple)) and
                self.client_path(d, depth + 1) for d in defs)
        if isinstance(e, ast.Tuple) and len(e.elts) == 1:
            return self.client_path(e.elts[0], depth + 1)
        if isinstance(e, ast.Tuple) and not e.elts and depth:
            return True              # no client: nothing is pushed
        if isinstance(e, ast.IfExp):
            return self.client_path(e.body, depth + 1) and \
                self.client_path(e.orelse, depth + 1)
        return False

    def effects(self, stmt, st):
        for n in ast.walk(stmt):
            if isinstance(n, ast.Call) and n.args and (
                    (isinstance(n.func, ast.Name) and
                     n.func.id in self.aliases) or
                    (isinstance(n.func, ast.Attribute) and
                     n.func.attr == '_push')):
                cls = self.classify(n.args[0])
                rec = self.sites.setdefault(id(n), {'node': n, 'cls': cls,
                                                    'bad': None})
                if cls is None:
                    rec['bad'] = 'unclassified source'
                    continue
                rk = RANK[cls]
                if rk < st.top:
                    rec['bad'] = (f'{cls} pushed after a higher-priority '
                                  'source')
                st = st.copy()
                st.top = max(st.top, rk)
        return st


def rule_push_order(model):
    r = RuleResult('C02.R1', 'namespace sources are pushed in documented '
                   'precedence order: shared < defaults < call mapping < '
                   'client(s) < template variables < call keywords')
    fi = model.func('DT_String', 'String.__call__')
    dom = PushOrder(model, fi)
    it = Interp(dom)
    it.run(fi.node, PS())
    if it.overflow:
        raise AnalysisError('C02.R1: state budget exceeded')
    seen = set()
    for rec in dom.sites.values():
        n = rec['node']
        r.instance(fi.where, n, rec['cls'] or 'UNCLASSIFIED')
        seen.add(rec['cls'])
        if rec['bad']:
            r.finding(fi.where, n, f'push of {norm(n.args[0])}: '
                      f'{rec["bad"]} (changes which source wins a name)',
                      node=n, ctx=fi)
    missing = set(RANK) - seen
    for m in sorted(missing):
        r.finding(fi.where, f'source {m}', f'the {m} source is never pushed '
                  'on the namespace', node=fi.node, ctx=fi)
    # the client path is pushed in the order given (last = innermost)
    for n in own_nodes(fi.node):
        if isinstance(n, ast.For) and any(
                isinstance(c, ast.Call) and dom.classify(c) == 'CLIENT'
                for c in ast.walk(n)):
            direct = dom.client_path(n.iter)
            r.instance(fi.where, f'for {norm(n.target)} in {norm(n.iter)}',
                       'client path order')
            if not direct:
                r.finding(fi.where, f'for ... in {norm(n.iter)}', 'the '
                          'client tuple is not pushed in the order given '
                          '(the last client must be searched first)',
                          node=n, ctx=fi)
    # a namespace class derived from TemplateDict that the package itself
    # puts under a rendering (dtml-with only ...) must be recognised as
    # "called from a template": the test is subclass-tolerant
    T = model.cls('_DocumentTemplate', 'TemplateDict')
    subs = [c for c in model.subclasses(T)
            if c.module.short != '_DocumentTemplate' or c is not T]
    mp = fi.params()[2] if len(fi.params()) > 2 else None
    tests = [x for x in own_nodes(fi.node) if isinstance(x, ast.Compare)
             and len(x.ops) == 1 and isinstance(x.ops[0], (ast.Is, ast.Eq))
             and norm(x.comparators[0]).endswith('TemplateDict')
             and mp is not None and mp in norm(x.left)]
    tol = [x for x in own_nodes(fi.node) if isinstance(x, ast.Call)
           and norm(x.func) == 'isinstance' and len(x.args) == 2
           and norm(x.args[0]) == mp
           and 'TemplateDict' in norm(x.args[1])]
    if tests or tol:
        r.instance(fi.where, 'sub-template test',
                   'subclass-tolerant' if tol else
                   f'exact type ({len(subs)} namespace subclass(es) in the '
                   'package)')
        if subs and not tol:
            r.finding(fi.where, tests[0], 'the test that recognises a call '
                      'from another template compares the exact type, and '
                      f'the package has a namespace subclass ({subs[0].name}'
                      '): a sub-template rendered under it builds a fresh '
                      'namespace -- none of the caller\'s sources is '
                      'searched', node=tests[0], ctx=fi)
    # whether a client was given is decided by identity with None, never
    # by the client's truth value: the client is an arbitrary application
    # object whose emptiness as a container says nothing about the names
    # it defines as attributes
    cparam = fi.params()[1] if len(fi.params()) > 1 else None
    for f2 in model.closure(fi):
        if f2 is not fi:
            continue
        for n in own_nodes(f2.node):
            test = n.test if isinstance(n, (ast.If, ast.IfExp, ast.While)) \
                else None
            if test is None:
                continue
            truthy = []

            def scan(e):
                if isinstance(e, ast.Name) and e.id == cparam:
                    truthy.append(e)
                elif isinstance(e, ast.UnaryOp) and isinstance(e.op,
                                                               ast.Not):
                    scan(e.operand)
                elif isinstance(e, ast.BoolOp):
                    for v in e.values:
                        scan(v)
                elif isinstance(e, ast.Call) and isinstance(
                        e.func, ast.Name) and e.func.id in ('bool', 'len') \
                        and e.args:
                    scan(e.args[0])
            scan(test)
            if any(isinstance(x, ast.Name) and x.id == cparam
                   for x in ast.walk(test)):
                r.instance(f2.where, f'if {norm(test)}',
                           'TRUTH VALUE' if truthy else 'identity/type test')
            if truthy:
                r.finding(f2.where, f'if {norm(test)}', 'whether a client '
                          'was given is decided by its truth value: a '
                          'client that is false as a container or number '
                          '(an empty folder, a record set without rows) is '
                          'dropped as a name source -- its attributes are '
                          'then answered by lower-priority sources or not '
                          'at all', node=n, ctx=f2)
    r.require_floor(6)
    return r


def rule_ctor(model):
    r = RuleResult('C02.R2', 'construction-time keyword defaults beat the '
                   'construction mapping; underscore names are not copied')
    fi = model.func('DT_String', 'String.initvars')
    params = fi.params()
    if len(params) < 3:
        raise AnalysisError('initvars signature changed')
    gmap, kw = params[1], params[2]
    stores = [n for n in own_nodes(fi.node) if isinstance(n, ast.Assign)
              and isinstance(n.targets[0], ast.Subscript)
              and norm(n.targets[0].value) == kw]
    bulk = [n for n in own_nodes(fi.node) if isinstance(n, ast.Call)
            and isinstance(n.func, ast.Attribute)
            and norm(n.func.value) == kw
            and n.func.attr in ('update', '__setitem__')]
    for b in bulk:
        arg = b.args[0] if b.args else None
        conds = []
        key = None
        if isinstance(arg, (ast.DictComp, ast.GeneratorExp, ast.ListComp)):
            for g in arg.generators:
                conds += g.ifs
            key = norm(arg.generators[0].target) if \
                isinstance(arg.generators[0].target, ast.Name) else None
        flat = []
        for c in conds:
            flat += c.values if isinstance(c, ast.BoolOp) and \
                isinstance(c.op, ast.And) else [c]
        has_not_in = any(isinstance(c, ast.Compare) and
                         isinstance(c.ops[0], ast.NotIn) and
                         norm(c.comparators[0]) == kw for c in flat)
        has_us = any("'_'" in norm(c) for c in flat)
        r.instance(fi.where, b, f'bulk copy: not-in={has_not_in} '
                   f'underscore={has_us}')
        if not has_not_in:
            r.finding(fi.where, b, 'the construction mapping is merged into '
                      'the keyword defaults without skipping names the '
                      'keywords already define: the mapping overrides '
                      'keyword defaults', node=b, ctx=fi)
        if not has_us:
            r.finding(fi.where, b, "names starting with '_' are copied from "
                      'the construction mapping', node=b, ctx=fi)
    copies = [(fi, s_, kw) for s_ in stores]
    for h, c, m in model.helper_calls([fi], None) if False else []:
        pass
    for c in own_nodes(fi.node):
        if not isinstance(c, ast.Call):
            continue
        for t in model.resolve_callee(c.func, fi):
            if t[0] != 'func' or t[1] is fi:
                continue
            h = t[1]
            hp = h.params()
            for i, a_ in enumerate(c.args):
                if norm(a_) == kw and i < len(hp):
                    for n in own_nodes(h.node):
                        if isinstance(n, ast.Assign) and isinstance(
                                n.targets[0], ast.Subscript) and \
                                norm(n.targets[0].value) == hp[i]:
                            copies.append((h, n, hp[i]))
    if not copies and not bulk:
        raise AnalysisError('initvars: copy into the keyword dict not found')
    # the copy loop, decided by scenario: one iteration is interpreted for
    # a private / public name that the keyword dict has / lacks; the store
    # may be reached for (public, lacking) only -- whatever the spelling of
    # the guards (nested ifs, one conjunction, continue-guards, named tests)
    for f, s_, kwname in copies:
        key = s_.targets[0].slice
        lp = next((a_ for a_ in ancestors(s_) if isinstance(a_, ast.For)),
                  None)
        if lp is None or not isinstance(key, ast.Name):
            r.instance(f.where, s_, 'copy outside a loop over the mapping')
            r.finding(f.where, s_, 'the construction mapping is copied into '
                      'the keyword defaults without the per-name tests',
                      node=s_, ctx=f)
            continue
        reached = {}
        for private in (True, False):
            for present in (True, False):
                dom = _CopyDomain(key.id, kwname, private, present, s_)
                Interp(dom).block(lp.body, _CS())
                reached[(private, present)] = dom.hit
        has_not_in = not reached[(False, True)] and not reached[(True, True)]
        has_us = not reached[(True, False)] and not reached[(True, True)]
        r.instance(f.where, s_, f'guards: not-in={has_not_in} '
                   f'underscore={has_us} copied={reached[(False, False)]}')
        if not has_not_in:
            r.finding(f.where, s_, 'the construction mapping overrides a '
                      'keyword default of the same name (copy not guarded '
                      f'by `{key.id} not in {kwname}`)', node=s_, ctx=f)
        if not has_us:
            r.finding(f.where, s_, "names starting with '_' are copied from "
                      'the construction mapping', node=s_, ctx=f)
        if not reached[(False, False)]:
            r.finding(f.where, s_, 'a public name the keywords lack is not '
                      'copied from the construction mapping', node=s_,
                      ctx=f)
    # self.globals is the keyword dict
    asg = [n for n in own_nodes(fi.node) if isinstance(n, ast.Assign)
           and isinstance(n.targets[0], ast.Attribute)
           and n.targets[0].attr == 'globals']

    def is_kw(v, depth=0):
        if norm(v) == kw:
            return True
        if isinstance(v, ast.Name) and depth < 3:
            ds = model.local_defs(fi, v.id)
            return bool(ds) and all(isinstance(d, ast.AST) and
                                    is_kw(d, depth + 1) for d in ds)
        if isinstance(v, ast.Call):
            for t in model.resolve_callee(v.func, fi):
                if t[0] != 'func':
                    continue
                h = t[1]
                hp = h.params()
                idx = [i for i, a_ in enumerate(v.args) if norm(a_) == kw]
                rets = [x for x in own_nodes(h.node)
                        if isinstance(x, ast.Return)]
                if len(idx) == 1 and idx[0] < len(hp) and rets and all(
                        x.value is not None and
                        norm(x.value) == hp[idx[0]] for x in rets) and \
                        not any(isinstance(y, ast.Name) and
                                y.id == hp[idx[0]] and
                                isinstance(y.ctx, ast.Store)
                                for y in own_nodes(h.node)):
                    return True
        return False
    if not asg or not is_kw(asg[0].value):
        r.finding(fi.where, 'self.globals = ...', 'the template defaults '
                  'are not the merged keyword dict', node=fi.node, ctx=fi)
    return r


class _CS(BaseState):
    def __init__(self, env=None):
        self.env = dict(env or {})

    def key(self):
        return tuple(sorted(self.env.items()))

    def copy(self):
        n = _CS(self.env)
        n.trace = self.trace
        return n


class _CopyDomain(Domain):
    """One round of the loop that copies the construction mapping, for a
    name that is private / public and present / absent in the keywords."""

    def __init__(self, key, kw, private, present, store):
        self.key, self.kw = key, kw
        self.private, self.present = private, present
        self.store = store
        self.hit = False

    def truth(self, e, st):
        if isinstance(e, ast.Name) and e.id in st.env:
            return st.env[e.id]
        if isinstance(e, ast.UnaryOp) and isinstance(e.op, ast.Not):
            v = self.truth(e.operand, st)
            return None if v is None else not v
        if isinstance(e, ast.BoolOp):
            vs = [self.truth(v, st) for v in e.values]
            if isinstance(e.op, ast.And):
                if any(v is False for v in vs):
                    return False
                return True if all(v is True for v in vs) else None
            if any(v is True for v in vs):
                return True
            return False if all(v is False for v in vs) else None
        if isinstance(e, ast.Compare) and len(e.ops) == 1:
            l, op, r_ = e.left, e.ops[0], e.comparators[0]
            if isinstance(op, (ast.In, ast.NotIn)) and \
                    norm(l) == self.key and norm(r_) == self.kw:
                return self.present if isinstance(op, ast.In) \
                    else not self.present
            if isinstance(r_, ast.Constant) and r_.value == '_' and \
                    self.key in norm(l) and isinstance(
                        op, (ast.Eq, ast.NotEq)):
                return self.private if isinstance(op, ast.Eq) \
                    else not self.private
        if isinstance(e, ast.Call) and isinstance(e.func, ast.Attribute) \
                and e.func.attr == 'startswith' and \
                norm(e.func.value) == self.key and e.args and isinstance(
                    e.args[0], ast.Constant) and e.args[0].value == '_':
            return self.private
        return None

    def branch(self, test, st):
        v = self.truth(test, st)
        if v is None:
            return [(True, st), (False, st)]
        return [(v, st)]

    def raises(self, node, st):
        return []

    def effects(self, stmt, st):
        if stmt is self.store:
            self.hit = True
        if isinstance(stmt, ast.Assign) and len(stmt.targets) == 1 and \
                isinstance(stmt.targets[0], ast.Name):
            v = self.truth(stmt.value, st)
            st = st.copy()
            if v is None:
                st.env.pop(stmt.targets[0].id, None)
            else:
                st.env[stmt.targets[0].id] = v
        return st


def _const_truth(e):
    if isinstance(e, ast.Constant):
        return bool(e.value)
    return None


def rule_call_flag(model):
    r = RuleResult('C02.R3', 'expressions fetch names uncalled, tags fetch '
                   'them called; auto-calling is guarded by the flag')
    ev = model.func('DT_Util', 'Eval.eval')
    gets = [n for n in own_nodes(ev.node) if isinstance(n, ast.Call)
            and isinstance(n.func, ast.Attribute)
            and n.func.attr == 'getitem']
    subs = [n for n in own_nodes(ev.node) if isinstance(n, ast.Subscript)
            and isinstance(n.ctx, ast.Load)
            and isinstance(n.value, ast.Name)
            and n.value.id == ev.params()[1]]
    for g in gets:
        flag = g.args[1] if len(g.args) > 1 else next(
            (k.value for k in g.keywords if k.arg == 'call'), None)
        ok = flag is None or _const_truth(flag) is False
        r.instance(ev.where, g, 'uncalled' if ok else 'CALLED')
        if not ok:
            r.finding(ev.where, g, 'names used in expressions are fetched '
                      'with auto-call on: callables reach expressions '
                      'already called', node=g, ctx=ev)
    for s in subs:
        r.finding(ev.where, s, 'expression names fetched with md[...] '
                  '(auto-call)', node=s, ctx=ev)
    if not gets and not subs:
        raise AnalysisError('Eval.eval: name fetch not found')
    gi = model.func('_DocumentTemplate', 'TemplateDict.__getitem__')
    rets = [n for n in own_nodes(gi.node) if isinstance(n, ast.Return)
            and isinstance(n.value, ast.Call)]
    ok = False
    for n in rets:
        c = n.value
        if isinstance(c.func, ast.Attribute) and c.func.attr == 'getitem':
            flag = c.args[1] if len(c.args) > 1 else next(
                (k.value for k in c.keywords if k.arg == 'call'), None)
            ok = flag is not None and _const_truth(flag) is True
            r.instance(gi.where, c, 'called' if ok else 'UNCALLED')
    if not ok:
        r.finding(gi.where, 'return self.getitem(...)', 'md[name] does not '
                  'delegate to getitem with auto-call on', node=gi.node,
                  ctx=gi)
    g = model.func('_DocumentTemplate', 'TemplateDict.getitem')
    params = g.params()
    flagname = params[2] if len(params) > 2 else None
    d = model.param_default(g, flagname) if flagname else None
    if d is None or _const_truth(d) is not False:
        r.finding(g.where, f'def getitem(..., {flagname}=...)', 'the '
                  'auto-call flag does not default to off', node=g.node,
                  ctx=g)
    # every call of the looked-up value is unreachable when the flag is off
    loopvars = set()
    for n in own_nodes(g.node):
        if isinstance(n, ast.For):
            loopvars |= {x.id for x in ast.walk(n.target)
                         if isinstance(x, ast.Name)}
    # ... or be what a lookup helper of the class returns:
    #   value = self._lookup(key)
    # (a method or a plain function of the module; it may return the value
    # itself or a tuple that carries it: `found, value = _lookup(...)`)
    clo_g = model.closure(g)
    for h in clo_g:
        if h is g or (h.cls is not g.cls and h.cls is not None):
            continue
        lv = set()
        for n in own_nodes(h.node):
            if isinstance(n, ast.For):
                lv |= {x.id for x in ast.walk(n.target)
                       if isinstance(x, ast.Name)}
        if not lv:
            continue

        def carries(e, vals):
            return (isinstance(e, ast.Subscript) and isinstance(
                e.value, ast.Name) and e.value.id in lv) or (
                isinstance(e, ast.Name) and e.id in vals)
        vals = set()
        for _ in range(2):
            for n in own_nodes(h.node):
                if isinstance(n, ast.Assign) and len(n.targets) == 1 and \
                        isinstance(n.targets[0], ast.Name) and \
                        carries(n.value, vals):
                    vals.add(n.targets[0].id)
        slots = set()
        for n in own_nodes(h.node):
            if not (isinstance(n, ast.Return) and n.value is not None):
                continue
            if carries(n.value, vals):
                slots.add(None)
            elif isinstance(n.value, ast.Tuple):
                for k_, e_ in enumerate(n.value.elts):
                    if carries(e_, vals):
                        slots.add(k_)
        if len(slots) != 1:
            continue
        slot = next(iter(slots))
        for hh, c, m in model.helper_calls([g], h):
            par = getattr(c, '_dt_parent', None)
            if not (isinstance(par, ast.Assign) and par.value is c and
                    len(par.targets) == 1):
                continue
            t = par.targets[0]
            if slot is None and isinstance(t, ast.Name):
                loopvars.add(t.id)
            elif slot is not None and isinstance(t, ast.Tuple) and \
                    slot < len(t.elts) and isinstance(t.elts[slot],
                                                      ast.Name):
                loopvars.add(t.elts[slot].id)
    # the looked-up value may live in its own variable:
    #   value = source[key]
    for _ in range(2):
        for n in own_nodes(g.node):
            if isinstance(n, ast.Assign) and len(n.targets) == 1 and \
                    isinstance(n.targets[0], ast.Name) and (
                        (isinstance(n.value, ast.Subscript) and
                         isinstance(n.value.value, ast.Name) and
                         n.value.value.id in loopvars) or
                        (isinstance(n.value, ast.Name) and
                         n.value.id in loopvars)):
                loopvars.add(n.targets[0].id)
    dom = _FlagDomain(flagname, loopvars)
    Interp(dom).run(g.node, _FS())
    ncalls = len(dom.sites)
    for n, ok in dom.sites.values():
        r.instance(g.where, n, 'only when flag on' if ok else 'UNGUARDED')
        if not ok:
            r.finding(g.where, n, 'the looked-up value is called even '
                      'when the auto-call flag is off', node=n, ctx=g)
        f = n.func
        if isinstance(f, ast.Name) and n.args:
            if not (len(n.args) == 2 and
                    isinstance(n.args[0], ast.Constant) and
                    n.args[0].value is None and
                    norm(n.args[1]) == 'self'):
                r.finding(g.where, n, 'a document template value is not '
                          'rendered as template(None, namespace)',
                          node=n, ctx=g)
    # the per-source try guards only the subscript lookup
    for name in ('getitem', '__contains__'):
        f2 = model.func('_DocumentTemplate', 'TemplateDict.' + name)
        # helpers that carry the search loop themselves
        hnames = {h.node.name for h in model.closure(f2)
                  if (h.cls is f2.cls or h.cls is None) and h is not f2
                  and any(isinstance(n, ast.For) and any(
                      isinstance(y, ast.Subscript) for y in ast.walk(n))
                      for n in own_nodes(h.node))}
        for f3, t in [(h, n) for h in model.closure(f2)
                      if h.cls is f2.cls or (h.cls is None and
                                             h.node.name in hnames)
                      for n in own_nodes(h.node)
                      if isinstance(n, ast.Try) and n.handlers]:
            calls_ = [x for x in ast.walk(t.body[0])
                      if isinstance(x, ast.Call)] if t.body else []
            helper_only = len(calls_) == 1 and ((isinstance(
                calls_[0].func, ast.Attribute) and
                calls_[0].func.attr in hnames and
                norm(calls_[0].func.value) == 'self') or (
                isinstance(calls_[0].func, ast.Name) and
                calls_[0].func.id in hnames))
            only_lookup = len(t.body) == 1 and ((any(
                isinstance(x, ast.Subscript) for x in ast.walk(t.body[0]))
                and not calls_) or helper_only)
            r.instance(f2.where, 'try: ' + norm(t.body[0]),
                       'lookup only' if only_lookup else 'WIDE')
            if not only_lookup:
                r.finding(f2.where, 'try: ' + norm(t.body[0]) + ' ...',
                          'the KeyError/NameError guard of the per-source '
                          'lookup covers more than the lookup: an error '
                          'raised by a called value makes the search fall '
                          'through to a lower-priority source', node=t,
                          ctx=f2)
    # every pushed source is consulted: the only way the search loop moves
    # on to the next source is the KeyError / NameError of the lookup (a
    # truth test of the source would skip mappings that are "empty" as
    # containers but still answer names: defaultdict, __missing__, lazy
    # records)
    hnames_all = set()
    for name in ('getitem', '__contains__'):
        f2 = model.func('_DocumentTemplate', 'TemplateDict.' + name)
        hnames_all |= {h.node.name for h in model.closure(f2)
                       if h.cls is None and h is not f2 and any(
                           isinstance(n, ast.For) and any(
                               isinstance(y, ast.Subscript)
                               for y in ast.walk(n))
                           for n in own_nodes(h.node))}
    for name in ('getitem', '__contains__'):
        f2 = model.func('_DocumentTemplate', 'TemplateDict.' + name)
        for h in [x for x in model.closure(f2)
                  if x.cls is f2.cls or x.cls is None]:
            for lp in [n for n in own_nodes(h.node)
                       if isinstance(n, ast.For) and (
                           '_data' in norm(n.iter) or
                           h.node.name in hnames_all)]:
                for c in ast.walk(lp):
                    if not isinstance(c, ast.Continue):
                        continue
                    in_handler = any(isinstance(a, ast.ExceptHandler)
                                     for a in ancestors(c)
                                     if a is not lp)
                    # ancestors beyond the loop do not count
                    inside = []
                    for a in ancestors(c):
                        if a is lp:
                            break
                        inside.append(a)
                    in_handler = any(isinstance(a, ast.ExceptHandler)
                                     for a in inside)
                    r.instance(h.where, c, 'after a failed lookup'
                               if in_handler else 'SOURCE SKIPPED')
                    if not in_handler:
                        test = next((norm(a.test) for a in inside
                                     if isinstance(a, ast.If)), '?')
                        r.finding(h.where, f'continue under `{test}`',
                                  'a source on the namespace stack is '
                                  'skipped without being asked for the '
                                  f'name (`{test}`): a mapping that is '
                                  'false as a container but answers names '
                                  'no longer shadows the sources below it',
                                  node=c, ctx=h)
    if ncalls < 3:
        raise AnalysisError('TemplateDict.getitem: auto-call sites not '
                            f'found ({ncalls})')
    # uncalled fetches in render code: reviewed sites only
    REVIEWED = {
        'DT_Util:Eval.eval': 'expression names',
        'DT_Var:Var.render': 'url option: calls absolute_url itself',
        'DT_In:make_sortfunctions': 'comparison function object',
        'TreeTag:tpRenderTABLE': 'header/footer/leaves/expand documents '
                                 'are called with extra arguments',
    }
    for fi in model.all_funcs():
        for n in own_nodes(fi.node):
            if isinstance(n, ast.Call) and isinstance(n.func, ast.Attribute)\
                    and n.func.attr == 'getitem' and \
                    not (fi.cls is not None and
                         fi.cls.name == 'TemplateDict'):
                flag = n.args[1] if len(n.args) > 1 else None
                if flag is None or _const_truth(flag) is False:
                    ok = fi.where in REVIEWED or (
                        fi.module.short == 'DT_In' and
                        'sort' in fi.name and fi.cls is None)
                    r.instance(fi.where, n, 'uncalled fetch (' +
                               REVIEWED.get(fi.where, 'comparison function '
                                            'lookup' if ok else
                                            'NOT REVIEWED') + ')')
                    if not ok:
                        r.finding(fi.where, n, 'a tag operand is fetched '
                                  'without auto-call (callables and '
                                  'templates named in a tag must be called '
                                  'when looked up)', node=n, ctx=fi)
    r.require_floor(8)
    return r


class _FS(BaseState):
    __slots__ = ('flag', 'trace', 'cur_exc')

    def __init__(self, flag=None):
        self.flag = flag
        self.trace = ()
        self.cur_exc = None

    def key(self):
        return self.flag

    def copy(self):
        n = _FS(self.flag)
        n.trace = self.trace
        return n


class _FlagDomain(Domain):
    def __init__(self, flagname, loopvars):
        self.flagname = flagname
        self.loopvars = loopvars
        self.sites = {}

    def branch(self, test, st):
        if isinstance(test, ast.Name) and test.id == self.flagname:
            if st.flag is not None:
                return [(st.flag, st)]
            return [(True, _FS(True)), (False, _FS(False))]
        return [(True, st), (False, st)]

    def _scan(self, node, st):
        for n in ast.walk(node):
            if isinstance(n, ast.Call):
                f = n.func
                if (isinstance(f, ast.Name) and f.id in self.loopvars) or (
                        isinstance(f, ast.Attribute) and
                        f.attr == '__render_with_namespace__'):
                    prev = self.sites.get(id(n), (n, True))
                    self.sites[id(n)] = (n, prev[1] and st.flag is True)

    def effects(self, stmt, st):
        self._scan(stmt, st)
        return st

    def on_return(self, node, st):
        if node.value is not None:
            self._scan(node.value, st)
        return [], st

    def loop_head(self, node, st):
        return st


def rule_direction(model):
    r = RuleResult('C02.R4', 'lookup searches from the push end: push '
                   'appends, lookups iterate reversed, pop removes the tail')
    T = model.cls('_DocumentTemplate', 'TemplateDict')
    push = T.methods.get('_push')
    pop = T.methods.get('_pop')
    if push is None or pop is None:
        raise AnalysisError('TemplateDict._push/_pop not found')
    pa = {'self._data'} | {
        n.targets[0].id for n in own_nodes(push.node)
        if isinstance(n, ast.Assign) and isinstance(n.targets[0], ast.Name)
        and norm(n.value) == 'self._data'}
    app = [n for n in own_nodes(push.node) if isinstance(n, ast.Call)
           and isinstance(n.func, ast.Attribute)
           and n.func.attr == 'append' and
           norm(n.func.value) in pa]
    r.instance(push.where, push.node.body[-1], 'append' if app else '?')
    if not app:
        r.finding(push.where, push.node.body[-1], '_push does not append to '
                  'the end of the stack', node=push.node, ctx=push)
    for name in ('getitem', '__contains__'):
        f = T.methods.get(name)
        if f is None:
            raise AnalysisError(f'TemplateDict.{name} not found')
        # the search loop may live in a helper of the class (_lookup)
        clo = model.closure(f)
        loops = [n for g in clo for n in own_nodes(g.node)
                 if isinstance(n, ast.For)]
        owner = {id(n): g for g in clo for n in own_nodes(g.node)
                 if isinstance(n, ast.For)}

        def is_stack(e, g, depth=0):
            # e, evaluated in g, is the stack list: self._data, a local
            # bound once to it, or a parameter that every call site in the
            # closure binds to it
            if norm(e) == 'self._data' and g.cls is not None:
                return True
            if not isinstance(e, ast.Name) or depth > 3:
                return False
            binds = [n for n in own_nodes(g.node)
                     if isinstance(n, ast.Assign) and any(
                         isinstance(t, ast.Name) and t.id == e.id
                         for t in n.targets)]
            if binds:
                return len(binds) == 1 and is_stack(binds[0].value, g,
                                                    depth + 1)
            params = [a.arg for a in g.node.args.posonlyargs +
                      g.node.args.args]
            if e.id not in params:
                return False
            k = params.index(e.id)
            sites = []
            for h in clo:
                for c in own_nodes(h.node):
                    if not isinstance(c, ast.Call):
                        continue
                    fn = c.func
                    nm = fn.id if isinstance(fn, ast.Name) else (
                        fn.attr if isinstance(fn, ast.Attribute) and
                        isinstance(fn.value, ast.Name) and
                        fn.value.id == 'self' else None)
                    if nm != g.node.name:
                        continue
                    kk = k - 1 if (isinstance(fn, ast.Attribute) and
                                   params and params[0] == 'self') else k
                    arg = c.args[kk] if 0 <= kk < len(c.args) else next(
                        (w.value for w in c.keywords if w.arg == e.id), None)
                    sites.append((h, arg))
            return bool(sites) and all(
                a is not None and is_stack(a, h, depth + 1)
                for h, a in sites)

        def top_down(lp):
            g = owner[id(lp)]
            it = lp.iter
            if isinstance(it, ast.Call) and isinstance(it.func, ast.Name) \
                    and it.func.id == 'reversed' and len(it.args) == 1:
                return is_stack(it.args[0], g)
            if isinstance(it, ast.Subscript) and norm(it.slice) == '::-1':
                return is_stack(it.value, g)
            return False
        ok = any(top_down(lp) for lp in loops)
        r.instance(f.where, f'for ... in {norm(loops[0].iter)}' if loops
                   else 'no loop', 'top-down' if ok else 'WRONG')
        if not ok:
            r.finding(f.where, 'lookup loop', 'the namespace is not '
                      'searched from the most recently pushed source',
                      node=f.node, ctx=f)
        if name == 'getitem':
            # first hit wins: a return inside the loop
            # (a return, or a break out of the search loop)
            if not any(isinstance(x, (ast.Return, ast.Break))
                       for lp in loops for x in ast.walk(lp)):
                r.finding(f.where, 'lookup loop', 'lookup does not stop at '
                          'the first source defining the name',
                          node=f.node, ctx=f)
    # _pop: entries are removed from the end of the stack list
    aliases = {'self._data'}
    lens = set()
    for n in own_nodes(pop.node):
        if isinstance(n, ast.Assign) and isinstance(n.targets[0], ast.Name):
            if norm(n.value) in aliases:
                aliases.add(n.targets[0].id)
            if isinstance(n.value, ast.Call) and \
                    isinstance(n.value.func, ast.Name) and \
                    n.value.func.id == 'len' and \
                    norm(n.value.args[0]) in aliases:
                lens.add(n.targets[0].id)
    tail = front = False
    for n in own_nodes(pop.node):
        sl = None
        if isinstance(n, ast.Delete):
            for t in n.targets:
                if isinstance(t, ast.Subscript) and \
                        norm(t.value) in aliases:
                    sl = t.slice
        elif isinstance(n, ast.Assign) and \
                isinstance(n.targets[0], ast.Subscript) and \
                norm(n.targets[0].value) in aliases and \
                isinstance(n.value, ast.List) and not n.value.elts:
            sl = n.targets[0].slice
        elif isinstance(n, ast.Call) and isinstance(n.func, ast.Attribute) \
                and n.func.attr == 'pop' and norm(n.func.value) in aliases:
            if not n.args:
                tail = True
            elif isinstance(n.args[0], ast.Constant) and \
                    n.args[0].value == 0:
                front = True
            else:
                tail = True
        if sl is not None:
            if isinstance(sl, ast.Slice):
                up_ok = sl.upper is None or (
                    isinstance(sl.upper, ast.Name) and sl.upper.id in lens)
                lo_bad = sl.lower is None or (
                    isinstance(sl.lower, ast.Constant) and
                    sl.lower.value == 0)
                if up_ok and not lo_bad:
                    tail = True
                else:
                    front = True
            elif isinstance(sl, ast.UnaryOp) or (
                    isinstance(sl, ast.BinOp) and
                    isinstance(sl.op, ast.Sub)):
                tail = True
            else:
                front = True
    r.instance(pop.where, '_pop body', 'tail' if tail and not front else '?')
    if not tail or front:
        r.finding(pop.where, '_pop body', '_pop does not remove entries '
                  'from the push end', node=pop.node, ctx=pop)
    return r


MUTATORS = {'update', 'append', 'extend', 'insert', 'setdefault', 'pop',
            'popitem', 'clear', 'remove', 'add', 'sort', 'reverse',
            '__setitem__', '__delitem__'}


class _MS(BaseState):
    def __init__(self, bound=False):
        self.bound = bound

    def key(self):
        return self.bound

    def copy(self):
        n = _MS(self.bound)
        n.trace = self.trace
        return n


class _MustBind(Domain):
    """Does every normal exit of a constructor path pass an unconditional
    `self.<attr> = ...`?"""

    def __init__(self, attr):
        self.attr = attr

    def raises(self, node, st):
        return []

    def effects(self, stmt, st):
        if isinstance(stmt, ast.Assign):
            for t in stmt.targets:
                for x in ast.walk(t):
                    if isinstance(x, ast.Attribute) and \
                            x.attr == self.attr and \
                            isinstance(x.value, ast.Name) and \
                            x.value.id == 'self' and \
                            isinstance(x.ctx, ast.Store):
                        st = st.copy()
                        st.bound = True
        return st


def rule_instance_state(model):
    r = RuleResult('C02.R6', 'a template variable source that a template '
                   'modifies in place (self._vars[...] = ..., .update) is '
                   'the template\'s own object: a mutable class-level '
                   'default is rebound on every constructor path before '
                   'it can be modified (otherwise var() on one template '
                   'defines names in every other template)')
    S = model.cls('DT_String', 'String')
    classes = [S] + list(model.subclasses(S))
    # attributes mutated in place through self
    mutated = {}
    for c in classes:
        for fi in c.methods.values():
            for n in own_nodes(fi.node):
                tgt = None
                if isinstance(n, ast.Subscript) and isinstance(
                        n.ctx, (ast.Store, ast.Del)):
                    tgt = n.value
                elif isinstance(n, ast.Call) and isinstance(
                        n.func, ast.Attribute) and n.func.attr in MUTATORS:
                    tgt = n.func.value
                if isinstance(tgt, ast.Attribute) and isinstance(
                        tgt.value, ast.Name) and tgt.value.id == 'self':
                    mutated.setdefault(tgt.attr, []).append((fi, n))
    init = model.lookup_method(S, 'initvars')
    ctor = model.lookup_method(S, '__init__')
    if init is None or ctor is None:
        raise AnalysisError('String.initvars / __init__ not found')
    # the namespace sources: attributes of the template pushed by __call__
    call = model.lookup_method(S, '__call__')
    dom0 = PushOrder(model, call)
    sources = set()
    for n in own_nodes(call.node):
        if isinstance(n, ast.Call) and n.args and (
                (isinstance(n.func, ast.Name) and n.func.id in dom0.aliases)
                or (isinstance(n.func, ast.Attribute) and
                    n.func.attr == '_push')):
            a = n.args[0]
            exprs = [a]
            if isinstance(a, ast.Name):
                exprs = [d for d in model.local_defs(call, a.id)
                         if isinstance(d, ast.AST)]
            for e in exprs:
                if isinstance(e, ast.Attribute) and isinstance(
                        e.value, ast.Name) and e.value.id == 'self':
                    sources.add(e.attr)
    if len(sources) < 3:
        raise AnalysisError(f'C02.R6: namespace sources {sorted(sources)}')
    for attr, sites in sorted(mutated.items()):
        if attr not in sources:
            continue
        c, v = model.lookup_class_attr(S, attr)
        shared = v is not None and isinstance(
            v, (ast.Dict, ast.List, ast.Set)) or (
                isinstance(v, ast.Call) and norm(v.func) in (
                    'dict', 'list', 'set'))
        # a per-instance binding on every path of the initialiser
        dom = _MustBind(attr)
        outs = Interp(dom).run(init.node, _MS())
        always = all(o.state.bound for o in outs
                     if o.kind in ('normal', 'return'))
        r.instance(sites[0][0].where, f'self.{attr} modified in place '
                   f'({len(sites)} site(s))',
                   ('class-level default, ' if shared else '') +
                   ('rebound by initvars on every path' if always
                    else 'NOT always rebound by initvars'))
        if shared and not always:
            r.finding(init.where, f'self.{attr}', f'`{attr}` has a mutable '
                      'class-level default that initvars does not replace '
                      'on every path, and is modified in place through '
                      f'self ({sites[0][0].where}): the change shows in '
                      'every template (a variable set with var() on one '
                      'template outranks the client, mapping and defaults '
                      'of all others)', node=init.node, ctx=init)
    r.require_floor(1)
    return r


class _NS(BaseState):
    def __init__(self, env=None):
        self.env = dict(env or {})

    def key(self):
        return tuple(sorted(self.env.items()))

    def copy(self):
        n = _NS(self.env)
        n.trace = self.trace
        return n


class _NamespaceDomain(Domain):
    """TemplateDict.__call__ for keyword arguments only: what kind of
    object ends up behind the DictInstance it returns -- KW (the plain
    keyword dict) or TD (a namespace, whose item access calls values)."""

    def __init__(self, fi):
        self.fi = fi
        a = fi.node.args
        self.va = a.vararg.arg if a.vararg else None
        self.kw = a.kwarg.arg if a.kwarg else None
        self.wrapped = []

    def val(self, e, st):
        if isinstance(e, ast.Name):
            if e.id == self.kw:
                return 'KW'
            return st.env.get(e.id, '?')
        if isinstance(e, ast.Call):
            t = norm(e.func)
            if t in ('type(self)', 'self.__class__', 'TemplateDict'):
                return 'TD'
            if t == 'len' and e.args and norm(e.args[0]) == self.va:
                return 'ZERO'
            if t in ('dict',) and e.args and \
                    self.val(e.args[0], st) == 'KW':
                return 'KW'
        return '?'

    def truth(self, e, st):
        if isinstance(e, ast.UnaryOp) and isinstance(e.op, ast.Not):
            v = self.truth(e.operand, st)
            return None if v is None else not v
        if isinstance(e, ast.BoolOp):
            vals = [self.truth(v, st) for v in e.values]
            if isinstance(e.op, ast.And):
                if any(v is False for v in vals):
                    return False
                return True if all(v is True for v in vals) else None
            if any(v is True for v in vals):
                return True
            return False if all(v is False for v in vals) else None
        if isinstance(e, ast.Name):
            if e.id == self.va:
                return False
            if e.id == self.kw:
                return True
            v = st.env.get(e.id)
            if v == 'ZERO':
                return False
            if v in ('KW', 'TD'):
                return True
        if isinstance(e, ast.Call) and self.val(e, st) == 'ZERO':
            return False
        return None

    def branch(self, test, st):
        v = self.truth(test, st)
        if v is None:
            return [(True, st), (False, st)]
        return [(v, st)]

    def raises(self, node, st):
        return []

    def for_may_skip(self, node, st):
        return True

    def for_target(self, node, st):
        # no positional arguments in this scenario: the body never runs
        if norm(node.iter) == self.va:
            return None
        return st

    def effects(self, stmt, st):
        self.note(stmt, st)
        if isinstance(stmt, ast.Assign) and len(stmt.targets) == 1 and \
                isinstance(stmt.targets[0], ast.Name):
            st = st.copy()
            st.env[stmt.targets[0].id] = self.val(stmt.value, st)
        return st

    def note(self, node, st):
        for c in ast.walk(node):
            if isinstance(c, ast.Call) and norm(c.func) == 'DictInstance' \
                    and c.args:
                self.wrapped.append((c, self.val(c.args[0], st)))

    def on_return(self, node, st):
        if node.value is not None:
            self.note(node.value, st)
        return [], st


def rule_keyword_namespace(model):
    r = RuleResult('C02.R7', 'values bound with keyword arguments only '
                   '(_.namespace(f=callable)) are held in a plain mapping: '
                   'reading them does not call them (expressions receive '
                   'callables uncalled); only a namespace built from '
                   'positional sources resolves names the calling way')
    fi = model.func('_DocumentTemplate', 'TemplateDict.__call__')
    dom = _NamespaceDomain(fi)
    if dom.kw is None or dom.va is None:
        raise AnalysisError('TemplateDict.__call__: expected *args, **kw')

    class _I(Interp):
        def loop(self, node, st):
            if isinstance(node, ast.For) and norm(node.iter) == dom.va:
                return self.block(node.orelse, st)
            return super().loop(node, st)
    _I(dom).run(fi.node, _NS())
    seen = set()
    for c, v in dom.wrapped:
        if (id(c), v) in seen:
            continue
        seen.add((id(c), v))
        r.instance(fi.where, c, f'keyword-only call wraps {v}')
        if v != 'KW':
            r.finding(fi.where, c, 'with keyword arguments only the '
                      'values are wrapped in a namespace object instead of '
                      'the plain keyword mapping: attribute access on the '
                      'result calls callables / renders templates before '
                      'the expression sees them', node=c, ctx=fi)
    r.require_floor(1)
    return r


def rule_scoping(model):
    from . import c08
    r = RuleResult('C02.R5', 'bindings of in/with/let/if/try blocks are '
                   'popped before the block returns (normal exits)')
    res = c08.rule_balance(model)[0]
    for inst in res.instances:
        r.instance(inst['where'], inst['construct'], inst['verdict'])
    for f in res.findings:
        if f.construct.startswith(('return', 'fall-through')):
            r.finding(f.where, f.construct, f.message)
    r.require_floor(9)
    return r


def _inl(rule):
    """Run a rule on the view in which helpers that are new w.r.t. the
    reference tree are inlined at their call sites (normalise.N2)."""
    def run(model):
        return rule(model.inlined_view())
    run.__name__ = rule.__name__
    return run


def _globals_params(fi):
    """Parameters of a template method whose value ends up in
    `self.globals` (the construction-time layers)."""
    flow = set()
    for n in own_nodes(fi.node):
        if isinstance(n, ast.Assign) and any(
                isinstance(t, ast.Attribute) and t.attr == 'globals' and
                isinstance(t.value, ast.Name) and t.value.id == 'self'
                for t in n.targets):
            for x in ast.walk(n.value):
                if isinstance(x, ast.Name):
                    flow.add(x.id)
        if isinstance(n, ast.Call) and isinstance(n.func, ast.Attribute) \
                and n.func.attr in ('update', 'setdefault') and \
                norm(n.func.value) == 'self.globals':
            for a in n.args:
                for x in ast.walk(a):
                    if isinstance(x, ast.Name):
                        flow.add(x.id)
    changed = True
    while changed:
        changed = False
        for n in own_nodes(fi.node):
            src = dst = None
            if isinstance(n, ast.Assign) and isinstance(
                    n.targets[0], ast.Subscript) and isinstance(
                    n.targets[0].value, ast.Name):
                dst, src = n.targets[0].value.id, n.value
            elif isinstance(n, ast.Call) and isinstance(
                    n.func, ast.Attribute) and n.func.attr == 'update' \
                    and isinstance(n.func.value, ast.Name) and n.args:
                dst, src = n.func.value.id, n.args[0]
            elif isinstance(n, ast.Assign) and isinstance(
                    n.targets[0], ast.Name):
                dst, src = n.targets[0].id, n.value
            if dst in flow and src is not None:
                for x in ast.walk(src):
                    if isinstance(x, ast.Name) and x.id not in flow:
                        flow.add(x.id)
                        changed = True
    return [p_ for p_ in fi.params() if p_ in flow]


def _mentions_vars_layer(e, fi, model, _depth=0):
    for x in ast.walk(e):
        if isinstance(x, ast.Attribute) and x.attr == '_vars':
            return True
        if isinstance(x, ast.Constant) and x.value == '_vars':
            return True
        if isinstance(x, ast.Name) and _depth < 3:
            for d in model.local_defs(fi, x.id):
                if isinstance(d, ast.AST) and _mentions_vars_layer(
                        d, fi, model, _depth + 1):
                    return True
    return False


def rule_layers(model):
    r = RuleResult('C02.R9', 'the variables set on a template (the _vars '
                   'layer, second in precedence) are never handed to the '
                   'construction-time layers (globals: keyword defaults and '
                   'construction mapping, last in precedence) when a '
                   'template is initialised, restored or re-edited')
    S = model.cls('DT_String', 'String')
    classes = [S] + list(model.subclasses(S))
    fm = model.modules['DT_String'].classes.get('FileMixin')
    if fm is not None:
        classes.append(fm)
    sinks = {}
    for ci in classes:
        for name, fi in ci.methods.items():
            ps = _globals_params(fi)
            if ps:
                sinks[name] = (fi, ps)
    if 'initvars' not in sinks:
        raise AnalysisError('C02.R9: String.initvars does not set '
                            'self.globals from its parameters')
    n = 0
    seen = set()
    for ci in classes:
        for fi in ci.methods.values():
            if id(fi) in seen:
                continue
            seen.add(id(fi))
            for x in own_nodes(fi.node):
                # direct store into the globals layer
                if isinstance(x, ast.Assign) and any(
                        norm(t) == 'self.globals' for t in x.targets):
                    n += 1
                    bad = _mentions_vars_layer(x.value, fi, model)
                    r.instance(fi.where, x, 'MIXES LAYERS' if bad
                               else 'own layer')
                    if bad:
                        r.finding(fi.where, x, 'the template variables '
                                  '(_vars) are stored as construction-time '
                                  'defaults: they lose against the client '
                                  'and the call mapping', node=x, ctx=fi)
                if not (isinstance(x, ast.Call) and isinstance(
                        x.func, ast.Attribute) and x.func.attr in sinks and
                        norm(x.func.value) == 'self'):
                    continue
                g, ps = sinks[x.func.attr]
                gp = g.params()[1:]
                n += 1
                bad = None
                for i, a in enumerate(x.args):
                    if i < len(gp) and gp[i] in ps and \
                            _mentions_vars_layer(a, fi, model):
                        bad = a
                for kw in x.keywords:
                    if kw.arg in ps and _mentions_vars_layer(
                            kw.value, fi, model):
                        bad = kw.value
                r.instance(fi.where, x, 'MIXES LAYERS' if bad is not None
                           else 'own layers')
                if bad is not None:
                    r.finding(fi.where, x, f'`{norm(bad)}` (the variables '
                              'set on the template) is handed to '
                              f'{x.func.attr}(), which stores it as '
                              'construction-time defaults: after this the '
                              'template variables lose against the client '
                              'object and the call mapping', node=x, ctx=fi)
    if n < 2:
        raise AnalysisError(f'C02.R9: only {n} layer stores found')
    return r


def rule_instance_attributes(model):
    r = RuleResult('C02.R10', 'the wrapper that exposes a client object, a '
                   'with-object or a loop element to the namespace resolves '
                   'names from ATTRIBUTES of the object only (items are '
                   'exposed by pushing the mapping itself, with the '
                   '`mapping` option): it never subscripts the object with '
                   'the name (a defaultdict / Counter element would define '
                   'every name and shadow all outer sources)')
    ci = model.modules['_DocumentTemplate'].classes.get('InstanceDict')
    gi = ci.methods.get('__getitem__') if ci else None
    if gi is None:
        raise AnalysisError('C02.R10: InstanceDict.__getitem__ not found')
    n = 0
    for fi in [f for f in model.closure(gi) if f.cls is ci]:
        inst = {'self.inst'}
        for x in own_nodes(fi.node):
            if isinstance(x, ast.Assign) and norm(x.value) == 'self.inst' \
                    and isinstance(x.targets[0], ast.Name):
                inst.add(x.targets[0].id)
        for x in own_nodes(fi.node):
            if isinstance(x, ast.Call) and x.args and \
                    norm(x.args[0]) in inst:
                n += 1
                nm = norm(x.func)
                defs = model.local_defs(fi, nm) if isinstance(
                    x.func, ast.Name) else []
                item = 'getitem' in nm or any(
                    isinstance(d, ast.AST) and 'getitem' in norm(d)
                    for d in defs)
                r.instance(fi.where, x, 'ITEM READ' if item
                           else 'attribute read')
                if item:
                    r.finding(fi.where, x, 'the wrapped object is read by '
                              'item access with the looked-up name',
                              node=x, ctx=fi)
            if isinstance(x, ast.Subscript) and isinstance(
                    x.ctx, ast.Load) and norm(x.value) in inst:
                n += 1
                r.instance(fi.where, x, 'ITEM READ')
                r.finding(fi.where, x, 'the wrapped object is subscripted '
                          'with the looked-up name: a mapping-like element '
                          '(defaultdict, Counter, record with __missing__) '
                          'then answers names it does not have as '
                          'attributes and shadows the outer sources',
                          node=x, ctx=fi)
    if n < 1:
        raise AnalysisError('C02.R10: no read of the wrapped object found')
    return r


def rule_namespace_function(model):
    r = RuleResult('C02.R11', '_.namespace(k=v, ...) makes ONE new source '
                   'that holds the keywords as given: the helper hands its '
                   'keyword dictionary on as keywords (`self(**kw)`), not '
                   'as a positional object (which is pushed as a source of '
                   'its own, so callables in it are auto-called on lookup); '
                   'the instance wrapper remembers only values it found')
    ns = model.func('DT_Util', 'namespace')
    kwn = ns.node.args.kwarg.arg if ns.node.args.kwarg else None
    calls = [c for c in own_nodes(ns.node) if isinstance(c, ast.Call)
             and isinstance(c.func, ast.Name) and c.func.id in ns.params()]
    if kwn is None or not calls:
        raise AnalysisError('DT_Util.namespace: call of the namespace '
                            'object with the keywords not found')
    for c in calls:
        ok = any(k.arg is None and norm(k.value) == kwn
                 for k in c.keywords) and not any(
            norm(a) == kwn for a in c.args)
        r.instance(ns.where, c, 'keywords handed on as keywords' if ok
                   else 'HANDED ON AS ONE OBJECT')
        if not ok:
            r.finding(ns.where, c, f'`{norm(c)}`: the keywords of '
                      '_.namespace() are not passed on as keywords: the '
                      'new namespace wraps them differently, so values in '
                      'it are called / rendered on lookup before an '
                      'expression sees them', node=c, ctx=ns)
    # the per-instance cache of the attribute wrapper holds found values
    gi = model.func('_DocumentTemplate', 'InstanceDict.__getitem__')
    n = 0
    for x in own_nodes(gi.node):
        if isinstance(x, ast.Assign) and any(
                isinstance(t, ast.Subscript) and 'cache' in norm(t.value)
                for t in x.targets):
            n += 1
            v = x.value
            defs = [v]
            if isinstance(v, ast.Name):
                defs = [d for d in model.local_defs(gi, v.id)
                        if isinstance(d, ast.AST)] or [v]
            ok = all(isinstance(d, ast.Call) for d in defs)
            r.instance(gi.where, x, 'a value that was found' if ok
                       else 'NOT A LOOKED-UP VALUE')
            if not ok:
                r.finding(gi.where, x, 'the attribute wrapper caches '
                          'something other than a value it looked up (a '
                          '"not there" marker): a name the object gains '
                          'later in the same rendering stays undefined '
                          'here and falls through to lower sources',
                          node=x, ctx=gi)
    if n < 1:
        raise AnalysisError('InstanceDict.__getitem__: cache store not '
                            'found')
    return r


def rule_block_namespace(model):
    r = RuleResult('C02.R8', 'the mapping dtml-in lays over the namespace '
                   'answers only its own names (keys with a dash, or keys '
                   'starting with a non-empty prefix= alias): plain names '
                   'keep resolving from the outer sources inside the body')
    from .. import prefixns
    return prefixns.fill_rule(r, model)


INLINED_VIEW = True
RULES_PLAIN = [rule_push_order, rule_ctor, rule_call_flag, rule_direction,
               rule_scoping, rule_instance_state, rule_keyword_namespace,
               rule_block_namespace, rule_layers, rule_instance_attributes,
               rule_namespace_function]
RULES = [_inl(r_) for r_ in RULES_PLAIN] if INLINED_VIEW else RULES_PLAIN
EXPLANATION = (
    'Forward dataflow of the precedence class of every namespace push along '
    'all paths of the template call; dominance of the guards in initvars; '
    'constant-argument / resolved-callee queries for the auto-call flag; '
    'direction agreement of push/lookup/pop; C08 engine for scoping.')
ASSUMPTIONS = ['does not decide the values of lookups nor the 63-combination '
               'table; InstanceDict lookup is judged under C05']
TRUSTED = ['python ast']
