"""C04 -- tainted values are always HTML-escaped when inserted.

R1 sink rule: with the looked-up / computed value a TaintedString, no text
   derived from it reaches an output sink of dtml-var (every return of
   Var.render, the append of the simple form in render_blocks_) as plain
   text ('P') or as an unquoted TaintedString ('T').
R2 wrapper rule: StringFunctionWrapper.__call__ never returns plain text
   derived from a tainted argument.
R3 once, not twice: no html-escaping operation is applied to text that is
   already the html-escaped form of the tainted value.
"""
import ast

from ..core import AnalysisError
from ..core import RuleResult
from ..core import norm
from ..flow import RETURN
from ..model import ancestors
from ..model import own_nodes
from ..taint import BLK
from ..taint import NS
from ..taint import O
from ..taint import T
from ..taint import C
from ..taint import Engine
from ..taint import TaintDomain
from ..taint import TaintInterp
from ..taint import TS
from ..taint import coll
from ..taint import kind


def leak_kind(a):
    """None if the atom is safe at a sink, else ('P'|'T', origin)."""
    k = kind(a)
    if a == T:
        return ('T', None)
    if k == 'P':
        return ('P', a[1])
    if k == 'COLL':
        for x in sorted(a[1], key=repr):
            if kind(x) == 'P':
                return ('P', x[1])
    return None


def analyse_var_render(engine):
    model = engine.model
    fi = model.func('DT_Var', 'Var.render')
    dom = TaintDomain(engine, fi)
    params = fi.params()
    if len(params) < 2:
        raise AnalysisError('Var.render signature changed')
    env = {params[0]: O, params[1]: NS}
    outs = TaintInterp(dom).run(fi.node, TS(env))
    sinks = []
    for o in outs:
        if o.kind == RETURN:
            sinks.append((o.node, o.state.ret, o.state))
    return fi, sinks


def analyse_simple_form(engine):
    model = engine.model
    fi = model.func('_DocumentTemplate', 'render_blocks_')
    params = fi.params()
    # the output list: the parameter on which .append is called
    out_param = None
    for n in ast.walk(fi.node):
        if isinstance(n, ast.Call) and isinstance(n.func, ast.Attribute) \
                and n.func.attr == 'append' and \
                isinstance(n.func.value, ast.Name) and \
                n.func.value.id in params:
            out_param = n.func.value.id
    if out_param is None:
        raise AnalysisError('render_blocks_: output list parameter not '
                            'found')
    md_param = None
    for n in ast.walk(fi.node):
        if isinstance(n, ast.Call) and isinstance(n.func, ast.Attribute) \
                and n.func.attr in ('_push', '_pop') and \
                isinstance(n.func.value, ast.Name):
            md_param = n.func.value.id
    if md_param is None and len(params) > 2:
        md_param = params[2]      # (blocks, rendered, md, encoding)
    if md_param is None:
        raise AnalysisError('render_blocks_: namespace parameter not found')
    dom = TaintDomain(engine, fi, sink_append=out_param)
    env = {p: O for p in params}
    env[params[0]] = coll({BLK}, True)
    env[md_param] = NS
    TaintInterp(dom).run(fi.node, TS(env))
    return fi, [(n, a, s) for n, a, s in dom.sinks]


def analyse_wrapper(engine):
    model = engine.model
    fi = model.func('DT_Util', 'StringFunctionWrapper.__call__')
    a = fi.node.args
    if not a.vararg or not a.kwarg:
        raise AnalysisError('StringFunctionWrapper.__call__: expected '
                            '*args/**kw')
    sinks = []
    for scen, env in (
            ('positional argument tainted',
             {'self': O, a.vararg.arg: coll({T}, True),
              a.kwarg.arg: coll({C}, False)}),
            ('keyword argument tainted',
             {'self': O, a.vararg.arg: coll({C}, False),
              a.kwarg.arg: coll({T}, True)})):
        dom = TaintDomain(engine, fi)
        outs = TaintInterp(dom).run(fi.node, TS(env))
        for o in outs:
            if o.kind == RETURN:
                sinks.append((o.node, o.state.ret, o.state, scen))
    return fi, sinks


def rule_sinks(model):
    eng = Engine(model)
    r1 = RuleResult('C04.R1', 'no text derived from a tainted value reaches '
                    'a dtml-var output sink unescaped (all option paths)')
    r2 = RuleResult('C04.R2', 'the _.string wrapper re-taints results '
                    'derived from tainted arguments')
    r3 = RuleResult('C04.R3', 'escaping is applied once: no html-escaping '
                    'of already escaped tainted text')

    fi, sinks = analyse_var_render(eng)
    fi2, sinks2 = analyse_simple_form(eng)
    n_sink_states = 0
    seen_inst = set()
    for f, ss in ((fi, sinks), (fi2, sinks2)):
        for node, atom, st in ss:
            n_sink_states += 1
            lk = leak_kind(atom)
            ik = (f.where, norm(node))
            if ik not in seen_inst:
                seen_inst.add(ik)
                r1.instance(f.where, node, 'sink')
            if lk is None:
                continue
            if lk[0] == 'T':
                r1.finding(f.where, node, 'a TaintedString reaches this '
                           'output sink without being quoted', node=node,
                           ctx=f, path=st.trace)
            else:
                owhere, ocons = lk[1].split('|', 1)
                names = []
                for ev in eng.events:
                    if ev['kind'] == 'methods' and ev['origin'] == lk[1]:
                        names = ev['names']
                msg = ('the taint mark is dropped here and the plain text '
                       f'reaches the output sink `{norm(node)}` of '
                       f'{f.where} unescaped')
                if names:
                    msg += (' (method formats returning raw text: '
                            + ', '.join(names[:12]) + ')')
                # keyed by module + operation (not by function) so that
                # extracting a helper does not rename a known finding
                r1.finding(owhere.split(':')[0], ocons,
                           f'in {owhere}: ' + msg, node=node, ctx=f,
                           path=st.trace, extra={'sink': f.where,
                                                 'origin': owhere})
    r1.stats = {'sink_states': n_sink_states,
                'summaries': eng.stats['summaries'],
                'statements_interpreted': eng.stats['states']}
    if len(r1.instances) < 4:
        raise AnalysisError('C04.R1: fewer than 4 sinks found')
    r1.floor = 4

    # summaries per table function for kind T (evidence)
    summ = {}
    for (where, args, kw), res in sorted(eng.summaries.items(),
                                         key=lambda x: repr(x[0])):
        if args and args[0] == T:
            summ[where] = sorted({kind(a) if kind(a) != 'COLL' else 'COLL'
                                  for a in res}) or ['raises']
    r1.stats['summaries_T'] = summ

    wfi, wsinks = analyse_wrapper(eng)
    for node, atom, st, scen in wsinks:
        r2.instance(wfi.where, node, scen)
        lk = leak_kind(atom)
        if lk is not None and lk[0] == 'P':
            owhere, ocons = lk[1].split('|', 1)
            r2.finding(owhere, ocons, f'{scen}: result derived from the '
                       'tainted argument is returned as plain text',
                       node=node, ctx=wfi, path=st.trace)
    r2.require_floor(2)

    doubles = [e for e in eng.events if e['kind'] == 'double']
    escapers = 0
    for e in eng.events:
        pass
    for (where, args, kw) in eng.summaries:
        if args and kind(args[0]) == 'H':
            escapers += 1
    r3.instance('DT_Var:Var.render', 'escaping operations applied along all '
                'option paths', escapers_seen_with_escaped_input=len(doubles))
    r3.instance('_DocumentTemplate:render_blocks_', 'simple form')
    # one report per (first escape, second escaper): keep the outermost
    grouped = {}
    for e in doubles:
        gk = (e['first'], e['second'].split(' via ')[0])
        if gk not in grouped or e['where'] in (fi.where, fi2.where):
            grouped[gk] = e
    for e in grouped.values():
        first = e['first'].split('|', 1)
        r3.finding(e['where'], f"{e['construct']} -> {e['second']} after "
                   f"{first[-1]}",
                   'already html-escaped tainted text (escaped at '
                   f'{e["first"]}) is html-escaped again by {e["second"]}')
    r3.floor = 1
    # positive controls
    r1.control('control: modifier that drops the mark', _control(model))
    rule_sinks.engine = eng
    return [r1, r2, r3]


CONTROL_SRC = '''
def control_mod(v):
    return str(v).swapcase()
'''


def _control(model):
    from ..model import Model
    key = next(k for k in model.sources if k.endswith('DT_Var.py'))
    srcs = {key: model.sources[key] + '\n' + CONTROL_SRC}
    for k in model.sources:
        if k.endswith(('html_quote.py', 'ustr.py')):
            srcs[k] = model.sources[k]
    try:
        m = Model.__new__(Model)
        m.root = model.root
        m.modules, m.by_full, m.stats, m.sources = {}, {}, {}, srcs
        for rel, src in srcs.items():
            m._add_module(rel, src)
        m._link()
        eng = Engine(m)
        res = eng.summary(m.func('DT_Var', 'control_mod'), [T])
        return any(kind(a) == 'P' for a in res)
    except AnalysisError:
        return False


def extra_coverage(model, results):
    eng = getattr(rule_sinks, 'engine', None)
    if eng is None:
        return {}
    return {'taint_summaries_for_T': results[0].stats.get('summaries_T'),
            'events': [e for e in eng.events][:40]}


def _inl(rule):
    """Run a rule on the view in which helpers that are new w.r.t. the
    reference tree are inlined at their call sites (normalise.N2)."""
    def run(model):
        return rule(model.inlined_view())
    run.__name__ = rule.__name__
    return run


INLINED_VIEW = True
def _transparent_decorator(model, m, dec):
    """Is `dec` a decorator of the repository whose wrapper always returns
    the result of calling the wrapped function?  -> (bool, reason)"""
    d = dec.func if isinstance(dec, ast.Call) else dec
    res = model.resolve_name_expr(m, d) if isinstance(
        d, (ast.Name, ast.Attribute)) else None
    if not res or res[0] != 'func':
        return False, f'`{norm(dec)}` is not a function of the package'
    fi = res[1]
    ps = fi.params()
    if not ps:
        return False, f'{fi.where} takes no function'
    wrapped = ps[0]
    inner = [n for n in fi.node.body if isinstance(n, ast.FunctionDef)]
    if not inner:
        # returns the function itself (registration decorators)
        rets = [n for n in own_nodes(fi.node) if isinstance(n, ast.Return)]
        if rets and all(isinstance(x.value, ast.Name) and
                        x.value.id == wrapped for x in rets):
            return True, ''
        return False, f'{fi.where}: shape not understood'
    for w in inner:
        wfi = w._dt_func
        for x in own_nodes(w):
            if not isinstance(x, ast.Return) or x.value is None:
                continue
            vals = [x.value]
            if isinstance(x.value, ast.Name):
                vals = [dd for dd in model.local_defs(wfi, x.value.id)]
            for v in vals:
                if not (isinstance(v, ast.Call) and isinstance(
                        v.func, ast.Name) and v.func.id == wrapped):
                    return False, (
                        f'the wrapper of {fi.where} can return '
                        f'`{norm(x.value)}`, which is not the result of '
                        'calling the wrapped function for this argument')
    return True, ''


def rule_table_decorators(model):
    r = RuleResult('C04.R4', 'a modifier or special format answers with the '
                   'result its own body computes for the value it is given: '
                   'no decorator stands between the dispatch tables and the '
                   'function whose wrapper can return anything else (a memo '
                   'keyed by ==/hash hands the plain result cached for "x" '
                   'to TaintedString("x"): equal, same hash)')
    from .. import tables
    m = model.module('DT_Var')
    n = 0
    seen = set()
    for tname in ('modifiers', 'special_formats'):
        ents = tables.func_entries(model, m, tname)
        if not ents:
            raise AnalysisError(f'C04.R4: table DT_Var.{tname} not '
                                'understood')
        for key, expr, res in ents:
            if not res or res[0] != 'func' or id(res[1]) in seen:
                continue
            fi = res[1]
            seen.add(id(fi))
            n += 1
            decs = fi.node.decorator_list
            r.instance(fi.where, 'def ' + fi.name,
                       f'{len(decs)} decorator(s)')
            for dec in decs:
                ok, why = _transparent_decorator(model, fi.module, dec)
                if not ok:
                    r.finding(fi.where, f'@{norm(dec)} def {fi.name}',
                              f'{fi.name} is reached through the decorator '
                              f'`{norm(dec)}`: {why}; a tainted value can '
                              'get the result computed for an equal plain '
                              'string, with the taint mark (and the final '
                              'escaping) lost', node=fi.node, ctx=fi)
    # the same through a re-binding of the name at module level:
    #     url_unquote = _memoized(url_unquote)
    names = {}
    for fid in seen:
        pass
    for tname in ('modifiers', 'special_formats'):
        for key, expr, res in tables.func_entries(model, m, tname):
            if res and res[0] == 'func' and res[1].cls is None:
                names[res[1].node.name] = res[1]
    for st in ast.walk(m.tree):
        if isinstance(st, (ast.FunctionDef, ast.AsyncFunctionDef,
                           ast.ClassDef, ast.Lambda)):
            continue
        if not isinstance(st, ast.Assign):
            continue
        if any(isinstance(a_, (ast.FunctionDef, ast.ClassDef))
               for a_ in ancestors(st)):
            continue
        for t in st.targets:
            if isinstance(t, ast.Name) and t.id in names and not (
                    isinstance(st.value, ast.Name) and
                    st.value.id == t.id):
                fi = names[t.id]
                r.instance(fi.where, st, 'NAME RE-BOUND')
                r.finding(fi.where, st, f'the table function {t.id} is '
                          f're-bound at module level to `{norm(st.value)}`: '
                          'the dispatch tables then reach whatever that '
                          'expression returns, not the function whose body '
                          'the taint analysis summarises (a memo keyed by '
                          '==/hash hands the plain result cached for "x" to '
                          'TaintedString("x"))', node=st, ctx=fi)
    if n < 12:
        raise AnalysisError(f'C04.R4: only {n} table functions resolved')
    return r


def rule_modifier_identity(model):
    """C15.R3's wrapper clause, as a necessary condition of C04: the
    taint analysis of the modifier loop is an analysis of the table
    functions; it says nothing about callables manufactured around them."""
    from .c15 import rule_table
    r3 = [x for x in rule_table(model) if x.rule == 'C15.R3'][0]
    r = RuleResult('C04.R5', 'the modifiers a var tag applies are the table '
                   'functions themselves (recognised by name, summarised by '
                   'the taint analysis), never new callables wrapped '
                   'around them')
    for inst in r3.instances:
        r.instance(inst['where'], inst['construct'], inst['verdict'])
    for f in r3.findings:
        if 'wrapping' in f.message:
            g = r.finding(f.where, f.construct, f.message)
            g.lineno, g.file = f.lineno, f.file
    r.require_floor(1)
    return r


RULES_PLAIN = [rule_sinks, rule_table_decorators, rule_modifier_identity]
RULES = [_inl(r_) for r_ in RULES_PLAIN] if INLINED_VIEW else RULES_PLAIN
EXPLANATION = (
    'Inter-procedural, path-sensitive taint analysis of the dtml-var '
    'pipeline with abstract kinds T/P/C/H/Q/O: the modifier loop is '
    'interpreted over the module table in table order with applied-or-'
    'skipped per entry (all subsets in one pass), special formats over all '
    'table entries, method formats over every attribute name, C formats, '
    'size/etc, null/missing, both simple forms and the _.string wrapper.')
ASSUMPTIONS = [
    'scenario: the looked-up / computed value is a TaintedString, every '
    'other input is clean',
    'library model: TaintedString methods classified from '
    'AccessControl/tainted.py source; str methods from a frozen table; '
    'html.escape / urllib.parse.quote sanitise, unquote un-sanitises',
    'Var.modifiers is the module table filtered in table order (C15.R3)',
    'values manufactured inside user expressions and TaintedBytes are out '
    'of scope',
]
TRUSTED = ['python ast', 'AccessControl/tainted.py as read',
           'dtverif/taintlib.py str-method table']
