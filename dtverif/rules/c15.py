"""C15 -- dtml-var options apply a fixed, documented value pipeline.

R1 the modifier table has no duplicate entries
R2 table names agree with the valueless options the tag accepts
R3 the applied modifiers are the *table* filtered by the options (table
   order, independent of the written order)
R4 stage order: missing < null < fmt < C format < modifiers < size/etc <
   final return
R5 name/function agreements: lower/upper/capitalize, url_(un)quote(_plus),
   sql_quote character table, special-format aliases, fmt twin blocks
"""
import ast

from ..core import AnalysisError
from ..flow import BaseState
from ..flow import Domain
from ..flow import Interp
from ..flow import NORMAL
from ..flow import Outcome
from ..core import RuleResult
from ..core import norm
from ..model import ancestors
from ..model import own_nodes

SWITCHES = {'url': 'not a value modifier: selects absolute_url() of the '
                   'value'}


def table_entries(model):
    """(module, node, [function name per entry]) of DT_Var.modifiers, in
    table order, however the table is spelled (tables.py); the option name
    of every entry is recorded in m._dt_pair_names."""
    from .. import tables
    m = model.module('DT_Var')
    vals = m.globals.get('modifiers')
    if not vals:
        raise AnalysisError('DT_Var.modifiers not found')
    ents = tables.func_entries(model, m, 'modifiers')
    if not ents:
        raise AnalysisError('DT_Var.modifiers: literal table of functions '
                            'not found')
    names, pairs = [], {}
    for key, expr, res in ents:
        fn = norm(expr)
        names.append(fn)
        if key is not None:
            # the option name an entry answers to
            real = res[1].name if res and res[0] == 'func' else fn
            pairs[fn] = key if key != real else fn
    m._dt_pair_names = pairs
    return m, vals[-1], names


class _PartState(BaseState):
    def __init__(self, env=None):
        self.env = env or {}

    def key(self):
        return tuple(sorted(self.env.items()))

    def copy(self):
        n = _PartState(dict(self.env))
        n.trace = self.trace
        return n


class _PartDomain(Domain):
    """Which part of the value (split at the first '.') reaches the
    digit-grouping regular expression: tags WHOLE (the value, or its str),
    PARTS (its split / partition at '.'), INT (the part before the first
    '.'), FRAC (anything after it), '?'."""

    def __init__(self, model, fi):
        self.model = model
        self.fi = fi
        self.fed = set()

    def ev(self, e, st):
        if isinstance(e, ast.Name):
            return st.env.get(e.id, '?')
        if isinstance(e, ast.NamedExpr):
            return self.ev(e.value, st)
        if isinstance(e, ast.Call):
            f = e.func
            if isinstance(f, ast.Name) and f.id in ('str', 'repr') and \
                    len(e.args) == 1:
                return self.ev(e.args[0], st)
            if isinstance(f, ast.Attribute) and f.attr in (
                    'split', 'partition') and e.args and isinstance(
                        e.args[0], ast.Constant) and e.args[0].value == '.':
                if self.ev(f.value, st) == 'WHOLE':
                    return 'PARTS'
                return '?'
            if isinstance(f, ast.Attribute) and f.attr == 'pop' and \
                    len(e.args) == 1 and isinstance(
                        e.args[0], ast.Constant) and \
                    e.args[0].value == 0 and \
                    self.ev(f.value, st) == 'PARTS':
                return 'INT'        # parts.pop(0): the integer part
            return '?'
        if isinstance(e, ast.Subscript):
            b = self.ev(e.value, st)
            if b == 'PARTS':
                if isinstance(e.slice, ast.Constant) and e.slice.value == 0:
                    return 'INT'
                return 'FRAC'
            if b in ('INT', 'FRAC', 'WHOLE') and isinstance(
                    e.slice, ast.Slice):
                return b
            return '?'
        if isinstance(e, ast.BinOp) and isinstance(e.op, ast.Add):
            tags = {self.ev(x, st) for x in (e.left, e.right)
                    if not isinstance(x, ast.Constant)}
            if len(tags) == 1:
                return tags.pop()
            return '?' if tags else '?'
        if isinstance(e, ast.IfExp):
            a, b = self.ev(e.body, st), self.ev(e.orelse, st)
            return a if a == b else '?'
        return '?'

    def note(self, node, st):
        for c in ast.walk(node):
            if isinstance(c, ast.Call) and c.args:
                rm = self.model.regex_method_of(c.func, self.fi)
                if rm is not None and rm[0] in ('search', 'match', 'sub',
                                                'subn', 'fullmatch'):
                    arg = c.args[-1] if rm[0] in ('sub', 'subn') \
                        else c.args[0]
                    self.fed.add((norm(arg), self.ev(arg, st)))

    def branch(self, test, st):
        self.note(test, st)
        return [(True, st), (False, st)]

    def simple(self, stmt, st):
        self.note(stmt, st)
        ns = st
        if isinstance(stmt, ast.Assign):
            ns = st.copy()
            for t in stmt.targets:
                self.bind(t, stmt.value, st, ns)
            v_ = stmt.value
            if isinstance(v_, ast.Call) and isinstance(
                    v_.func, ast.Attribute) and v_.func.attr == 'pop' and \
                    isinstance(v_.func.value, ast.Name) and \
                    st.env.get(v_.func.value.id) == 'PARTS':
                ns.env[v_.func.value.id] = 'FRAC'
        elif isinstance(stmt, ast.Delete):
            # `del vl[0]`: the list no longer starts with the integer part
            ns = st.copy()
            for t in stmt.targets:
                if isinstance(t, ast.Subscript) and isinstance(
                        t.value, ast.Name) and \
                        ns.env.get(t.value.id) == 'PARTS':
                    ns.env[t.value.id] = 'FRAC'
        return [Outcome(NORMAL, ns)]

    def bind(self, t, value, st, ns):
        if isinstance(t, ast.Name):
            ns.env[t.id] = self.ev(value, st)
        elif isinstance(t, (ast.Tuple, ast.List)):
            if isinstance(value, (ast.Tuple, ast.List)) and \
                    len(value.elts) == len(t.elts):
                for a, b in zip(t.elts, value.elts):
                    self.bind(a, b, st, ns)
            else:
                tag = self.ev(value, st)
                for i, a in enumerate(t.elts):
                    if isinstance(a, ast.Starred):
                        a = a.value
                    if isinstance(a, ast.Name):
                        ns.env[a.id] = ('INT' if i == 0 else 'FRAC') \
                            if tag == 'PARTS' else '?'

    def for_target(self, node, st):
        ns = st.copy()
        for x in ast.walk(node.target):
            if isinstance(x, ast.Name):
                ns.env[x.id] = '?'
        return ns


def rule_table(model):
    r1 = RuleResult('C15.R1', 'the modifier table lists each modifier once '
                    '(a duplicate is applied twice)')
    r2 = RuleResult('C15.R2', 'modifier names = valueless options accepted '
                    'by dtml-var')
    r3 = RuleResult('C15.R3', 'the modifiers applied are the table filtered '
                    'by the options, in table order')
    m, node, names = table_entries(model)
    seen = set()
    for n in names:
        r1.instance('DT_Var:modifiers', n)
        if n in seen:
            r1.finding('DT_Var:modifiers', f'duplicate entry {n}',
                       f'{n} occurs twice in the modifier table and is '
                       'therefore applied twice to the value', node=node,
                       ctx=m)
        seen.add(n)
    r1.require_floor(10)
    for fn, opt in sorted(getattr(m, '_dt_pair_names', {}).items()):
        if fn != opt:
            r2.finding('DT_Var:modifiers', f'({opt!r}, {fn})', f'the table '
                       f'registers {fn} under the option name {opt!r}: the '
                       f'option {fn} never selects it', node=node, ctx=m)
    # each entry resolves to a function of that name
    for n in sorted(seen):
        t = model.resolve_global(m, n)
        if not t or t[0] != 'func':
            r2.finding('DT_Var:modifiers', n, 'table entry is not a '
                       'function', node=node, ctx=m)
        elif t[1].name != n:
            r2.finding('DT_Var:modifiers', n, f'table entry {n} is function '
                       f'{t[1].name}: the option name it answers to differs',
                       node=node, ctx=m)
    init = model.func('DT_Var', 'Var.__init__')
    pp = None
    for c in own_nodes(init.node):
        if isinstance(c, ast.Call) and \
                'DT_Util:parse_params' in model.callee_names(c, init):
            pp = c
    if pp is None:
        raise AnalysisError('Var.__init__: parse_params call not found')
    flags = {k.arg for k in pp.keywords
             if isinstance(k.value, ast.Constant) and k.value.value == 1}
    r2.instance(init.where, 'valueless options: ' + ', '.join(sorted(flags)))
    r2.instance('DT_Var:modifiers', 'table: ' + ', '.join(sorted(seen)))
    for n in sorted(seen - flags):
        r2.finding(init.where, f'modifier {n}', f'modifier {n} is in the '
                   'table but not accepted as a valueless option: it can '
                   'never be requested', node=pp, ctx=init)
    for n in sorted(flags - seen - set(SWITCHES)):
        r2.finding(init.where, f'option {n}', f'option {n} is accepted but '
                   'no modifier of that name is in the table: it is '
                   'silently ignored', node=pp, ctx=init)
    # R3
    asg = [n for n in own_nodes(init.node) if isinstance(n, ast.Assign)
           and any(isinstance(t, ast.Attribute) and t.attr == 'modifiers'
                   for t in n.targets)]
    if not asg:
        raise AnalysisError('Var.__init__: self.modifiers assignment not '
                            'found')
    v = asg[0].value
    src = _iteration_source(v)
    r3.instance(init.where, asg[0], f'iteration source: {src}')
    if src != 'modifiers':
        r3.finding(init.where, asg[0], 'the applied modifiers are not '
                   'obtained by filtering the module table (iteration '
                   f'source is `{src}`): their order depends on how the '
                   'tag was written', node=asg[0], ctx=init)
    # every (re-)assignment keeps the table's own functions: elements are
    # projections of the table entries, never new callables wrapping them
    # (Var.render recognises html_quote by the function's name, and the
    # taint summaries are those of the table functions)
    for a in asg:
        src_a = _iteration_source(a.value)
        if a is not asg[0]:
            r3.instance(init.where, a, f'iteration source: {src_a}')
            if src_a not in ('modifiers', 'self.modifiers'):
                r3.finding(init.where, a, 'the applied modifiers are '
                           're-assigned from something else than the table '
                           f'(`{src_a}`)', node=a, ctx=init)
        elts = []
        for x in ast.walk(a.value):
            if isinstance(x, (ast.ListComp, ast.GeneratorExp, ast.SetComp)):
                elts.append(x.elt)
            if isinstance(x, ast.Call) and isinstance(x.func, ast.Name) and \
                    x.func.id == 'map' and x.args and isinstance(
                        x.args[0], ast.Lambda):
                elts.append(x.args[0].body)
        for e in elts:
            wraps = [y for y in ast.walk(e) if isinstance(y, ast.Lambda) or (
                isinstance(y, ast.Call) and isinstance(y.func, ast.Name)
                and y.func.id in ('partial', 'wraps'))] + [
                y for y in ast.walk(e) if isinstance(y, ast.Call) and
                isinstance(y.func, ast.Attribute) and
                y.func.attr == 'partial']
            if wraps:
                r3.finding(init.where, a, 'a modifier is replaced by a new '
                           f'callable wrapping it (`{norm(wraps[0])[:60]}`):'
                           ' it no longer carries the table function\'s '
                           'name, so the rule that leaves tainted values '
                           'to the final quoting does not recognise '
                           'html_quote any more (the value is quoted into '
                           'a plain string early and later modifiers can '
                           'undo it)', node=a, ctx=init)
    # and render iterates self.modifiers directly
    ren = model.func('DT_Var', 'Var.render')
    loops = [n for n in own_nodes(ren.node) if isinstance(n, ast.For)
             and 'modifiers' in norm(n.iter)]
    if not loops:
        raise AnalysisError('Var.render: modifier loop not found')
    for lp in loops:
        r3.instance(ren.where, f'for {norm(lp.target)} in {norm(lp.iter)}')
        if norm(lp.iter) != 'self.modifiers':
            r3.finding(ren.where, f'for ... in {norm(lp.iter)}', 'the '
                       'modifier loop does not iterate the filtered table '
                       'in order', node=lp, ctx=ren)
    return [r1, r2, r3]


def _iteration_source(v):
    """Innermost iterable of nested tuple(map(f, filter(g, X))) /
    comprehensions."""
    cur = v
    for _ in range(6):
        if isinstance(cur, ast.Call) and isinstance(cur.func, ast.Name) and \
                cur.func.id in ('tuple', 'list') and cur.args:
            cur = cur.args[0]
        elif isinstance(cur, ast.Call) and isinstance(cur.func, ast.Name) \
                and cur.func.id in ('map', 'filter') and len(cur.args) == 2:
            cur = cur.args[1]
        elif isinstance(cur, (ast.ListComp, ast.GeneratorExp)):
            cur = cur.generators[0].iter
        else:
            break
    return norm(cur)


def rule_stages(model):
    r = RuleResult('C15.R4', 'pipeline stages follow each other in the '
                   'documented order')
    fi = model.func('DT_Var', 'Var.render')
    body = fi.node.body
    idx = {}
    null_if = None

    def mentions(node, text):
        return text in norm(node) if node is not None else False
    fmt_aliases = {n.targets[0].id for n in own_nodes(fi.node)
                   if isinstance(n, ast.Assign) and
                   isinstance(n.targets[0], ast.Name) and
                   norm(n.value) == 'self.fmt'}
    def _size_read(v):
        # args['size'] / args.get('size') / int(<one of those>)
        if isinstance(v, ast.Call) and isinstance(v.func, ast.Name) and \
                v.func.id == 'int' and len(v.args) == 1:
            v = v.args[0]
        return (isinstance(v, ast.Subscript) and isinstance(
            v.slice, ast.Constant) and v.slice.value == 'size') or (
            isinstance(v, ast.Call) and isinstance(v.func, ast.Attribute)
            and v.func.attr == 'get' and v.args and isinstance(
                v.args[0], ast.Constant) and v.args[0].value == 'size')
    size_aliases = {n.targets[0].id for n in own_nodes(fi.node)
                    if isinstance(n, ast.Assign) and
                    isinstance(n.targets[0], ast.Name) and
                    _size_read(n.value)}
    for i, st in enumerate(body):
        for n in ast.walk(st):
            if isinstance(n, ast.Return) and n.value is not None and \
                    mentions(n.value, "'missing'") and 'missing' not in idx:
                idx['missing'] = i
            if isinstance(n, ast.If) and mentions(n.test, "'null' in") and \
                    any(isinstance(x, ast.Return) for x in n.body) and \
                    'null' not in idx:
                idx['null'] = i
                null_if = n
        if isinstance(st, ast.If) and mentions(st.test, "'fmt' in"):
            idx.setdefault('fmt', i)
        if any(isinstance(n, ast.BinOp) and isinstance(n.op, ast.Mod) and
               (mentions(n.left, 'self.fmt') or (any(
                   isinstance(x, ast.Name) and x.id in fmt_aliases
                   for x in ast.walk(n.left)) and any(
                   isinstance(x, ast.Constant) and x.value == '%'
                   for x in ast.walk(n.left)))) for n in ast.walk(st)):
            idx.setdefault('cformat', i)
        if isinstance(st, ast.For) and mentions(st.iter, 'modifiers'):
            idx.setdefault('modifiers', i)
        if isinstance(st, ast.If) and (
                mentions(st.test, "'size'") or any(
                    isinstance(x, ast.Name) and x.id in size_aliases
                    for x in ast.walk(st.test))):
            idx.setdefault('size', i)
        if isinstance(st, ast.Return):
            idx['final'] = i
    order = ['missing', 'null', 'fmt', 'cformat', 'modifiers', 'size',
             'final']
    missing = [k for k in order if k not in idx]
    if missing:
        raise AnalysisError(f'Var.render: stage markers not found: '
                            f'{missing}')
    r.instance(fi.where, ' < '.join(f'{k}@{idx[k]}' for k in order))
    if idx['null'] == idx['fmt'] and null_if is not None:
        # the null test lives inside the statement that applies fmt= (an
        # elif arm of it): it is only reached when fmt= did not apply
        r.finding(fi.where, 'null before fmt', 'the null= test is an arm '
                  'of the fmt= statement: with both options on a null '
                  'value the format is applied (and wins whenever it does '
                  'not raise) instead of the null text', node=null_if,
                  ctx=fi)
    for a, b in zip(order, order[1:]):
        r.instance(fi.where, f'{a} before {b}')
        if not idx[a] < idx[b] and not (a == 'missing' and
                                        idx[a] <= idx[b]):
            r.finding(fi.where, f'{a} before {b}', f'the {b} stage runs '
                      f'before the {a} stage', node=body[idx[b]], ctx=fi)
    # the final return returns the pipeline value
    last = body[idx['final']]
    r.instance(fi.where, last)
    return r


def rule_agreements(model):
    r = RuleResult('C15.R5', 'each modifier does what its name says '
                   '(method / urllib function / SQL character table); '
                   'special-format aliases; fmt twin blocks')
    m = model.module('DT_Var')
    for name in ('lower', 'upper', 'capitalize'):
        fi = m.funcs.get(name)
        if fi is None:
            raise AnalysisError(f'DT_Var.{name} not found')
        calls = [n.func.attr for n in own_nodes(fi.node)
                 if isinstance(n, ast.Call) and
                 isinstance(n.func, ast.Attribute)]
        r.instance(fi.where, fi.node.body[-1])
        if calls != [name]:
            r.finding(fi.where, fi.node.body[-1], f'{name} does not call '
                      f'the string method {name}()', node=fi.node, ctx=fi)
    pairs = {'url_quote': 'quote', 'url_quote_plus': 'quote_plus',
             'url_unquote': 'unquote', 'url_unquote_plus': 'unquote_plus'}
    for name, want in pairs.items():
        fi = m.funcs.get(name)
        if fi is None:
            raise AnalysisError(f'DT_Var.{name} not found')
        used = set()
        for n in own_nodes(fi.node):
            if isinstance(n, ast.Call):
                for cn in model.callee_names(n, fi):
                    if cn.startswith('urllib.parse.'):
                        used.add(cn.split('.')[-1])
                        # called with the value alone: an extra `safe=`,
                        # `encoding=` ... changes which characters are
                        # (un)quoted and breaks the round trip with the
                        # inverse modifier
                        extra = [k.arg for k in n.keywords] + [
                            norm(a) for a in n.args[1:]]
                        if extra:
                            r.finding(fi.where, n, f'{name} calls '
                                      f'{cn.split(".")[-1]}() with extra '
                                      f'arguments ({", ".join(map(str, extra))}): '
                                      'it no longer (un)quotes exactly what '
                                      'its inverse restores -- text that '
                                      'already contains %XX is left as it '
                                      'is and comes back decoded', node=n,
                                      ctx=fi)
            # the urllib function handed to a shared helper
            if isinstance(n, ast.Attribute) and \
                    norm(n.value) == 'urllib.parse':
                used.add(n.attr)
            if isinstance(n, ast.Name) and isinstance(n.ctx, ast.Load):
                imp = fi.module.imports.get(n.id)
                if imp and imp[0] == 'urllib.parse' and imp[1]:
                    used.add(imp[1])
        r.instance(fi.where, f'urllib.parse: {sorted(used)}')
        if used != {want}:
            r.finding(fi.where, f'urllib.parse.{sorted(used)}', f'{name} '
                      f'must use urllib.parse.{want} only', node=fi.node,
                      ctx=fi)
    sq = model.inlined_view().module('DT_Var').funcs.get('sql_quote')
    if sq is None:
        raise AnalysisError('DT_Var.sql_quote not found')
    removed, doubled = set(), set()
    for n in own_nodes(sq.node):
        if isinstance(n, ast.For):
            ok, vals = model.fold(n.iter, sq)
            if not ok:
                continue
            tv = n.target.id if isinstance(n.target, ast.Name) else None
            for c in ast.walk(n):
                if isinstance(c, ast.Call) and \
                        isinstance(c.func, ast.Attribute) and \
                        c.func.attr == 'replace' and len(c.args) == 2 and \
                        norm(c.args[0]) == tv:
                    if isinstance(c.args[1], ast.Constant) and \
                            c.args[1].value == '':
                        removed |= set(vals)
                    elif norm(c.args[1]) in (f'{tv} * 2', f'2 * {tv}',
                                             f'{tv} + {tv}'):
                        doubled |= set(vals)
        if isinstance(n, ast.Call) and isinstance(n.func, ast.Attribute) \
                and n.func.attr == 'replace' and len(n.args) == 2:
            # constants, possibly spelled c + c / c * 2 after unrolling
            try:
                from .. import constfold
                a = constfold.fold(n.args[0], {}, {})
                b = constfold.fold(n.args[1], {}, {})
            except Exception:
                continue
            if not (isinstance(a, str) and isinstance(b, str)):
                continue
            if b == '':
                removed.add(a)
            elif b == a * 2:
                doubled.add(a)
    r.instance(sq.where, f'removes {sorted(map(repr, removed))}, doubles '
               f'{sorted(map(repr, doubled))}')
    for ch in ('\x00', '\x1a', '\r'):
        if ch not in removed:
            r.finding(sq.where, f'remove {ch!r}', f'sql_quote no longer '
                      f'removes {ch!r}', node=sq.node, ctx=sq)
    if "'" not in doubled:
        r.finding(sq.where, "double \"'\"", 'sql_quote does not double '
                  'single quotes: the value can terminate a SQL string '
                  'literal', node=sq.node, ctx=sq)
    # special formats: alias keys map to the function of that name
    from .. import tables
    ents = tables.func_entries(model, m, 'special_formats')
    if not ents:
        raise AnalysisError('DT_Var.special_formats not found')
    for key, expr, res in ents:
        if not isinstance(key, str):
            continue
        fn = key.replace('-', '_')
        r.instance('DT_Var:special_formats', f'{key!r}: {norm(expr)}')
        if fn in m.funcs or model.resolve_global(m, fn):
            want = model.resolve_global(m, fn)
            same = res is not None and want is not None and \
                res[0] == want[0] and res[1] is want[1]
            if not same and norm(expr) != fn:
                r.finding('DT_Var:special_formats',
                          f'{key!r}: {norm(expr)}', f'format {key!r} '
                          f'should be the function {fn}',
                          node=m.globals['special_formats'][-1], ctx=m)
    # thousands_commas groups the integer part only
    tc = m.funcs.get('thousands_commas')
    if tc is None:
        raise AnalysisError('DT_Var.thousands_commas not found')
    dom = _PartDomain(model, tc)
    it = Interp(dom, 20000)
    params = tc.params()
    it.run(tc.node, _PartState({params[0]: 'WHOLE'} if params else {}))
    fed = sorted(dom.fed, key=str)
    ok = bool(fed) and all(tag == 'INT' for _, tag in fed)
    r.instance(tc.where, 'grouping regex fed with '
               f'{[(t, g) for t, g in fed]}',
               'integer part' if ok else 'WHOLE VALUE')
    if not fed:
        raise AnalysisError('thousands_commas: grouping regex use not found')
    if not ok:
        r.finding(tc.where, 'grouping input', 'the digit-grouping regex is '
                  'not applied to the part before the first "." only: '
                  'digits of the fraction get grouped too', node=tc.node,
                  ctx=tc)
    # fmt twin blocks in Var.render
    ren = model.func('DT_Var', 'Var.render')
    chains = []
    for f in m.funcs.values():
        for n in own_nodes(f.node):
            if isinstance(n, ast.If) and norm(n.test).startswith('hasattr('):
                # if/elif chain, or guard clauses followed by the table test
                src = ast.unparse(n)
                if 'special_formats' not in src:
                    blk = n._dt_parent
                    for fld in ('body', 'orelse'):
                        lst = getattr(blk, fld, None)
                        if isinstance(lst, list) and n in lst:
                            src += ' '.join(ast.unparse(x)
                                            for x in lst[lst.index(n):])
                if 'special_formats' in src:
                    chains.append(n)
    r.instance(ren.where, f'{len(chains)} fmt dispatch block(s)')
    if len(chains) == 2:
        if ast.dump(chains[0]) != ast.dump(chains[1]):
            r.finding(ren.where, 'fmt dispatch twins', 'the two copies of '
                      'the fmt= dispatch (with and without null=) differ',
                      node=chains[1], ctx=ren)
    elif len(chains) == 0:
        raise AnalysisError('Var.render: fmt dispatch not found')
    # a position found by find()/rfind() is tested against "not found"
    # (< 0, == -1), never against 0: position 0 is a hit
    from .. import tables
    seen = set()
    for tname in ('modifiers', 'special_formats'):
        for key, expr, res in tables.func_entries(model, m, tname) or ():
            if not res or res[0] != 'func' or id(res[1]) in seen:
                continue
            f = res[1]
            seen.add(id(f))
            finds = set()
            for n in own_nodes(f.node):
                if isinstance(n, ast.Assign) and isinstance(
                        n.targets[0], ast.Name) and _is_find(n.value):
                    finds.add(n.targets[0].id)
            for n in own_nodes(f.node):
                bad = None
                if isinstance(n, ast.Compare) and len(n.ops) == 1:
                    l, op, rt = n.left, n.ops[0], n.comparators[0]
                    if (_is_find(l) or (isinstance(l, ast.Name) and
                                        l.id in finds)) and \
                            isinstance(rt, ast.Constant) and \
                            isinstance(rt.value, int):
                        k = rt.value
                        hit0 = {ast.Gt: 0 > k, ast.GtE: 0 >= k,
                                ast.Lt: 0 < k, ast.LtE: 0 <= k,
                                ast.Eq: 0 == k, ast.NotEq: 0 != k}.get(
                                    type(op))
                        hit5 = {ast.Gt: 5 > k, ast.GtE: 5 >= k,
                                ast.Lt: 5 < k, ast.LtE: 5 <= k,
                                ast.Eq: 5 == k, ast.NotEq: 5 != k}.get(
                                    type(op))
                        r.instance(f.where, n, 'found / not found'
                                   if hit0 == hit5 else 'POSITION 0 APART')
                        if hit0 is not None and hit0 != hit5:
                            bad = n
                elif isinstance(n, (ast.If, ast.IfExp, ast.While)) and (
                        _is_find(n.test) or (
                            isinstance(n.test, ast.Name) and
                            n.test.id in finds)):
                    bad = n.test
                if bad is not None:
                    r.finding(f.where, bad, f'{f.name}: a hit at position 0 '
                              'is treated like "not found" (the result of '
                              'find() is compared with 0 / used as a truth '
                              'value): a value that STARTS with the '
                              'character is left as it is', node=bad,
                              ctx=f)
    r.require_floor(20)
    return r


def _is_find(e):
    return isinstance(e, ast.Call) and isinstance(e.func, ast.Attribute) \
        and e.func.attr in ('find', 'rfind', 'index', 'rindex')


def rule_membership(model):
    r = RuleResult('C15.R6', 'value-carrying options are consulted by '
                   'membership, never by truthiness (an explicitly empty '
                   'value is a value)')
    ren = model.func('DT_Var', 'Var.render')
    argv = None
    for n in own_nodes(ren.node):
        if isinstance(n, ast.Assign) and norm(n.value) == 'self.args' and \
                isinstance(n.targets[0], ast.Name):
            argv = n.targets[0].id
    names = {argv, 'self.args'} - {None}
    for n in own_nodes(ren.node):
        if isinstance(n, ast.Compare) and isinstance(n.ops[0], ast.In) and \
                norm(n.comparators[0]) in names and \
                isinstance(n.left, ast.Constant):
            r.instance(ren.where, n, 'membership')
        if isinstance(n, ast.BoolOp) and isinstance(n.op, ast.Or):
            first = n.values[0]
            reads = (isinstance(first, ast.Subscript) and
                     norm(first.value) in names) or (
                isinstance(first, ast.Call) and
                isinstance(first.func, ast.Attribute) and
                first.func.attr == 'get' and
                norm(first.func.value) in names)
            if reads:
                r.instance(ren.where, n, 'TRUTHINESS')
                r.finding(ren.where, n, 'an option value is replaced by a '
                          'default when it is merely false: an explicitly '
                          'empty value (etc="", null="") is ignored',
                          node=n, ctx=ren)
    # an option value bound to a name (x = args.get('size')) and then
    # tested for truth: a false value (size=0, etc="") counts as absent
    opt = {}
    for n in own_nodes(ren.node):
        if isinstance(n, ast.Assign) and len(n.targets) == 1 and \
                isinstance(n.targets[0], ast.Name):
            v = n.value
            key = None
            if isinstance(v, ast.Call) and isinstance(
                    v.func, ast.Attribute) and v.func.attr == 'get' and \
                    norm(v.func.value) in names and v.args and \
                    isinstance(v.args[0], ast.Constant):
                key = v.args[0].value
            if key is not None:
                opt.setdefault(n.targets[0].id, set()).add(key)
    for n in own_nodes(ren.node):
        tests = []
        if isinstance(n, (ast.If, ast.While, ast.IfExp)):
            tests = [n.test]
        for t in tests:
            leaves = [t]
            while leaves:
                x = leaves.pop()
                if isinstance(x, ast.BoolOp):
                    leaves += x.values
                elif isinstance(x, ast.UnaryOp) and isinstance(
                        x.op, ast.Not):
                    leaves.append(x.operand)
                elif isinstance(x, ast.Name) and x.id in opt and all(
                        isinstance(d, ast.AST) and (
                            (isinstance(d, ast.Call) and isinstance(
                                d.func, ast.Attribute) and
                             d.func.attr == 'get') or any(
                                isinstance(y, ast.Name) and y.id == x.id
                                for y in ast.walk(d)))
                        for d in model.local_defs(ren, x.id)):
                    keys = sorted(opt[x.id])
                    r.instance(ren.where, n.test, 'TRUTHINESS')
                    r.finding(ren.where, f'if {x.id}  ({keys[0]}=)',
                              f'the {keys[0]}= option is consulted by the '
                              'truth of its value: a false value '
                              f'({keys[0]}=0, {keys[0]}="") is treated '
                              'as if the option was not given', node=n,
                              ctx=ren)
    # an option value handed to a helper whose parameter is then tested
    # for truth (`etc or '...'`): same confusion, one call further
    def option_key(a):
        if isinstance(a, ast.Call) and isinstance(a.func, ast.Attribute) \
                and a.func.attr == 'get' and norm(a.func.value) in names \
                and a.args and isinstance(a.args[0], ast.Constant):
            return a.args[0].value
        if isinstance(a, ast.Subscript) and norm(a.value) in names and \
                isinstance(a.slice, ast.Constant):
            return a.slice.value
        if isinstance(a, ast.Name) and a.id in opt:
            return sorted(opt[a.id])[0]
        return None
    for n in own_nodes(ren.node):
        if not isinstance(n, ast.Call):
            continue
        for t in model.resolve_callee(n.func, ren):
            if t[0] != 'func':
                continue
            callee = t[1]
            ps = callee.params()
            off = 1 if callee.cls is not None and ps[:1] == ['self'] else 0
            bound = {}
            for i, a in enumerate(n.args):
                k = option_key(a)
                if k is not None and i + off < len(ps):
                    bound[ps[i + off]] = k
            for kw in n.keywords:
                k = option_key(kw.value)
                if k is not None and kw.arg in ps:
                    bound[kw.arg] = k
            for pname, key in bound.items():
                for x in own_nodes(callee.node):
                    hit = None
                    if isinstance(x, ast.BoolOp) and any(
                            isinstance(v, ast.Name) and v.id == pname
                            for v in x.values[:-1]):
                        hit = x
                    elif isinstance(x, (ast.If, ast.IfExp, ast.While)):
                        leaves = [x.test]
                        while leaves:
                            y = leaves.pop()
                            if isinstance(y, ast.BoolOp):
                                leaves += y.values
                            elif isinstance(y, ast.UnaryOp) and isinstance(
                                    y.op, ast.Not):
                                leaves.append(y.operand)
                            elif isinstance(y, ast.Name) and y.id == pname:
                                hit = x.test
                    if hit is not None:
                        r.instance(callee.where, hit, 'TRUTHINESS')
                        r.finding(callee.where, f'{norm(hit)}  ({key}=)',
                                  f'the value of the {key}= option, handed '
                                  f'to {callee.name}() as `{pname}`, is '
                                  'consulted by its truth: an explicitly '
                                  f'empty value ({key}="") is treated as if '
                                  'the option was not given', node=hit,
                                  ctx=callee)
    # the option dictionary itself handed to a helper together with a
    # constant option name: helper(args, md, 'size', default) -- inside, the
    # value read by that name must not be consulted by its truth either
    for n in own_nodes(ren.node):
        if not isinstance(n, ast.Call):
            continue
        for t in model.resolve_callee(n.func, ren):
            if t[0] != 'func':
                continue
            callee = t[1]
            ps = callee.params()
            off = 1 if callee.cls is not None and ps[:1] == ['self'] else 0
            pdict = pkey = None
            optname = None
            for i, a in enumerate(n.args):
                if i + off >= len(ps):
                    continue
                if norm(a) in names:
                    pdict = ps[i + off]
                if isinstance(a, ast.Constant) and isinstance(a.value, str):
                    pkey, optname = ps[i + off], a.value
            if not (pdict and pkey):
                continue
            vals = set()
            for x in own_nodes(callee.node):
                if isinstance(x, ast.Assign) and isinstance(
                        x.targets[0], ast.Name) and any(
                        (isinstance(y, ast.Subscript) and
                         norm(y.value) == pdict and norm(y.slice) == pkey)
                        or (isinstance(y, ast.Call) and isinstance(
                            y.func, ast.Attribute) and y.func.attr == 'get'
                            and norm(y.func.value) == pdict and y.args and
                            norm(y.args[0]) == pkey)
                        for y in ast.walk(x.value)):
                    vals.add(x.targets[0].id)
            for x in own_nodes(callee.node):
                hit = None
                if isinstance(x, ast.BoolOp) and any(
                        isinstance(v, ast.Name) and v.id in vals
                        for v in x.values[:-1]):
                    hit = x
                elif isinstance(x, (ast.If, ast.IfExp, ast.While)) and \
                        isinstance(x.test, ast.Name) and x.test.id in vals:
                    # `if v:` guarding the conversion is the literal /
                    # variable decision of int_param: tolerated only when
                    # the false branch leaves v itself (0 stays 0)
                    continue
                if hit is not None:
                    par_ret = isinstance(getattr(hit, '_dt_parent', None),
                                         ast.Return)
                    last = hit.values[-1]
                    harmless = isinstance(last, ast.Constant) and \
                        last.value in (0, '')
                    r.instance(callee.where, hit, 'falls back to 0'
                               if harmless else 'TRUTHINESS')
                    if not harmless:
                        r.finding(callee.where, f'{norm(hit)}  '
                                  f'({optname}=)', f'the value of the '
                                  f'{optname}= option is replaced by '
                                  f'`{norm(last)}` when it is merely false: '
                                  f'an explicit {optname}=0 is treated as '
                                  'if the option was not given', node=hit,
                                  ctx=callee)
    r.require_floor(5)
    return r


def rule_missing(model):
    r = RuleResult('C15.R8', 'missing= replaces only an undefined name: '
                   'its value is returned under a membership test of the '
                   'name, never from an exception handler around the '
                   'evaluation of the value (a KeyError raised while a '
                   'defined value is called / rendered is not "undefined")')
    ren = model.func('DT_Var', 'Var.render')
    n_ret = 0
    for n in own_nodes(ren.node):
        if not (isinstance(n, ast.Return) and n.value is not None and any(
                isinstance(x, ast.Constant) and x.value == 'missing'
                for x in ast.walk(n.value))):
            continue
        n_ret += 1
        handler = None
        checked = False
        for anc in ancestors(n):
            if isinstance(anc, ast.If) and handler is None and \
                    'args[0]' in norm(anc.test):
                checked = True
            if isinstance(anc, ast.ExceptHandler):
                handler = anc
                break
            if isinstance(anc, (ast.FunctionDef, ast.AsyncFunctionDef)):
                break
        if handler is None:
            r.instance(ren.where, n, 'under a membership test')
            continue
        tr = handler._dt_parent
        evaluates = any(
            (isinstance(x, ast.Subscript) and isinstance(x.ctx, ast.Load)
             and not isinstance(x.slice, ast.Constant)) or
            (isinstance(x, ast.Call) and isinstance(x.func, ast.Attribute)
             and x.func.attr in ('getitem', '__getitem__'))
            for st in tr.body for x in ast.walk(st))
        r.instance(ren.where, n, 'in an exception handler'
                   + (' (key compared)' if checked else ''))
        if evaluates and not checked:
            r.finding(ren.where, n, 'missing= is returned from an '
                      f'`except {norm(handler.type) if handler.type else ""}'
                      '` around the lookup that also calls / renders the '
                      'value: a KeyError raised inside a defined value is '
                      'silently replaced by the missing= text', node=n,
                      ctx=ren)
    if not n_ret:
        raise AnalysisError('Var.render: missing= stage not found')
    r.floor = 1
    return r


# the documented pipeline order of the value modifiers
PIPELINE = ['html_quote', 'url_quote', 'url_quote_plus', 'url_unquote',
            'url_unquote_plus', 'newline_to_br', 'lower', 'upper',
            'capitalize', 'spacify', 'thousands_commas', 'sql_quote']
# pairs whose order does not matter (f(g(x)) == g(f(x)) for every text):
# exchanging them is not a change of the pipeline
COMMUTE = {
    frozenset(p) for p in (
        # digit grouping inserts commas between digits only; case mapping
        # and underscore replacement touch neither digits nor commas
        ('thousands_commas', 'lower'), ('thousands_commas', 'upper'),
        ('thousands_commas', 'capitalize'), ('thousands_commas', 'spacify'),
        # "_" -> " " is independent of the case of the other characters
        ('spacify', 'lower'), ('spacify', 'upper'),
        ('spacify', 'capitalize'),
        # the inserted "<br />" is lower case already
        ('newline_to_br', 'lower'),
    )}


def rule_pipeline_order(model):
    r = RuleResult('C15.R7', 'the relative order of any two value '
                   'modifiers that do not commute is the documented one '
                   '(in particular sql_quote runs after every modifier '
                   'that can produce a quote, url_unquote / '
                   'url_unquote_plus)')
    m, node, names = table_entries(model)
    pos = {n: i for i, n in enumerate(names)}
    n_pairs = 0
    early = {}
    for i, a in enumerate(PIPELINE):
        for b in PIPELINE[i + 1:]:
            if a not in pos or b not in pos or \
                    frozenset((a, b)) in COMMUTE:
                continue
            n_pairs += 1
            if pos[a] > pos[b]:
                early.setdefault(b, []).append(a)
    for b, before in sorted(early.items()):
        why = ''
        if b == 'sql_quote' and {'url_unquote', 'url_unquote_plus'} & \
                set(before):
            why = (': the value can contain a lone single quote after SQL '
                   'quoting (a %27 unquoted afterwards) and terminate a '
                   'SQL string literal')
        r.finding('DT_Var:modifiers', f'{b} before {", ".join(before)}',
                  f'the modifier table applies {b} before '
                  f'{", ".join(before)}; the documented pipeline applies '
                  f'{b} after them' + why, node=node, ctx=m)
    r.instance('DT_Var:modifiers', ' < '.join(names),
               f'{n_pairs} ordered pairs compared')
    if n_pairs < 40:
        raise AnalysisError(f'C15.R7: only {n_pairs} modifier pairs found')
    r.floor = 1
    return r


def _pure_piece(e, param):
    """Is e a constant or an untransformed piece of the match object
    `param` (a group or a slice of a group)?"""
    if isinstance(e, ast.Constant):
        return True
    if isinstance(e, ast.Call) and isinstance(e.func, ast.Attribute) and \
            e.func.attr == 'group' and isinstance(e.func.value, ast.Name) \
            and e.func.value.id == param:
        return True
    if isinstance(e, ast.Subscript):
        return _pure_piece(e.value, param)
    if isinstance(e, ast.BoolOp):
        return all(_pure_piece(v, param) for v in e.values)
    if isinstance(e, ast.IfExp):
        return _pure_piece(e.body, param) and _pure_piece(e.orelse, param)
    return False


def rule_format_verbatim(model):
    r = RuleResult('C15.R9', 'the C-style format a %(name)fmt tag is '
                   'written with reaches the var tag as written: the '
                   'scanner hook varExtra hands on a constant or an '
                   'untransformed group of the match (%X, %E, %G are not '
                   '%x, %e, %g)')
    n = 0
    S = model.cls('DT_String', 'String')
    for ci in [S] + list(model.subclasses(S)):
        fi = ci.methods.get('varExtra')
        if fi is None:
            continue
        ps = fi.params()
        if len(ps) < 2:
            raise AnalysisError(f'{fi.where}: signature changed')
        for x in own_nodes(fi.node):
            if not isinstance(x, ast.Return):
                continue
            n += 1
            v = x.value
            exprs = [v]
            if isinstance(v, ast.Name):
                exprs = [d for d in model.local_defs(fi, v.id)]
            ok = v is not None and all(
                isinstance(e, ast.AST) and _pure_piece(e, ps[1])
                for e in exprs)
            r.instance(fi.where, x, 'verbatim' if ok else 'TRANSFORMED')
            if not ok:
                r.finding(fi.where, x, 'the format text of the tag is '
                          'transformed between the scanner and the var '
                          'tag: the conversion applied is not the one '
                          'written', node=x, ctx=fi)
    if n < 2:
        raise AnalysisError(f'C15.R9: only {n} varExtra returns found')
    return r


ARG_MUTATORS = ('pop', 'update', 'setdefault', 'clear', 'popitem',
                '__setitem__', '__delitem__')


def rule_frozen_options(model, rule_id='C15.R11'):
    r = RuleResult(rule_id, 'the var tag derives its modifier list (and '
                   'its simple form) from the final option dictionary: the '
                   'options are not edited after the state derived from '
                   'them has been computed')
    fi = model.func('DT_Var', 'Var.__init__')
    body = fi.node.body
    # the local holding the parsed options: the value stored as self.args
    opt = None
    for n in own_nodes(fi.node):
        if isinstance(n, ast.Assign) and any(
                isinstance(t, ast.Attribute) and t.attr == 'args' and
                isinstance(t.value, ast.Name) and t.value.id == 'self'
                for t in n.targets) and isinstance(n.value, ast.Name):
            opt = n.value.id
    if opt is None:
        raise AnalysisError(f'{rule_id}: Var.__init__ does not store the '
                            'option dictionary')

    def top_index(node):
        cur = node
        from ..model import parent as _parent
        while cur is not None and cur not in body:
            cur = _parent(cur)
        return body.index(cur) if cur in body else None
    m_ = table_entries(model)[0]
    modnames = set(table_entries(model)[2]) | set(
        getattr(m_, '_dt_pair_names', {}).values())
    derived = []
    for n in own_nodes(fi.node):
        if isinstance(n, ast.Assign) and any(
                isinstance(t, ast.Attribute) and
                isinstance(t.value, ast.Name) and t.value.id == 'self' and
                t.attr != 'args' for t in n.targets) and any(
                isinstance(x, ast.Name) and x.id == opt
                for x in ast.walk(n.value)):
            derived.append(n)
    if not derived:
        raise AnalysisError(f'{rule_id}: no state derived from the options '
                            'found in Var.__init__')
    first = min(top_index(d) for d in derived)
    for d in derived:
        r.instance(fi.where, d.targets[0], 'derived from the options')
    for n in own_nodes(fi.node):
        mut = None
        if isinstance(n, ast.Subscript) and isinstance(
                n.ctx, (ast.Store, ast.Del)) and \
                isinstance(n.value, ast.Name) and n.value.id == opt:
            mut = n
        elif isinstance(n, ast.Call) and isinstance(n.func, ast.Attribute) \
                and n.func.attr in ARG_MUTATORS and \
                isinstance(n.func.value, ast.Name) and \
                n.func.value.id == opt:
            mut = n
        elif isinstance(n, ast.Assign) and any(
                isinstance(t, ast.Name) and t.id == opt
                for t in n.targets) and top_index(n) is not None and \
                top_index(n) > first:
            mut = n
        if mut is None:
            continue
        # which option?  a constant key that is not a modifier name cannot
        # make the derived modifier list stale
        key = None
        if isinstance(mut, ast.Subscript) and isinstance(
                mut.slice, ast.Constant):
            key = mut.slice.value
        elif isinstance(mut, ast.Call) and mut.func.attr in (
                'pop', 'setdefault') and mut.args and isinstance(
                mut.args[0], ast.Constant):
            key = mut.args[0].value
        i = top_index(mut)
        late = i is not None and i > first
        if key is not None and key not in modnames:
            r.instance(fi.where, mut, 'not a modifier option')
            continue
        r.instance(fi.where, mut, 'AFTER the derived state' if late
                   else 'before the derived state')
        if late:
            r.finding(fi.where, mut, 'the option dictionary is edited '
                      'after the modifier list / simple form were derived '
                      'from it: the rendering path that consults the '
                      'options and the one that uses the derived state '
                      'disagree (an html_quote added here is never '
                      'applied on the full path)', node=mut, ctx=fi)
    return r


def rule_fmt_dispatch(model):
    r = RuleResult('C15.R10', 'fmt=NAME resolves to a method of the value '
                   'first, then to a named special format, then to a '
                   '%-format: in every dispatch chain the method test '
                   'precedes the special-format test')
    ren = model.func('DT_Var', 'Var.render')
    n = 0
    from ..model import parent as _parent
    for fi, x in [(f, x) for f in model.closure(ren)
                  for x in own_nodes(f.node)]:
        if not isinstance(x, ast.If):
            continue
        par = _parent(x)
        if isinstance(par, ast.If) and par.orelse == [x]:
            continue          # not the head of its chain
        tests = []
        cur = x
        while True:
            tests.append(cur.test)
            if len(cur.orelse) == 1 and isinstance(cur.orelse[0], ast.If):
                cur = cur.orelse[0]
            else:
                break
        kinds = []
        for t in tests:
            k = None
            for y in ast.walk(t):
                if isinstance(y, ast.Compare) and len(y.ops) == 1 and \
                        isinstance(y.ops[0], ast.In) and \
                        norm(y.comparators[0]) == 'special_formats':
                    k = 'special'
                if isinstance(y, ast.Call) and isinstance(
                        y.func, ast.Name) and y.func.id == 'hasattr' and \
                        len(y.args) == 2 and not isinstance(
                            y.args[1], ast.Constant):
                    k = k or 'method'
            kinds.append(k)
        if 'special' not in kinds:
            continue
        n += 1
        i = kinds.index('special')
        ok = 'method' in kinds[:i]
        if not ok and i == 0:
            # guard-clause style: an earlier sibling `if hasattr(val, fmt):
            # ...; return` in the same statement list
            for fld in ('body', 'orelse', 'finalbody'):
                lst = getattr(par, fld, None)
                if isinstance(lst, list) and x in lst:
                    for st in lst[:lst.index(x)]:
                        if isinstance(st, ast.If) and any(
                                isinstance(y, ast.Call) and isinstance(
                                    y.func, ast.Name) and
                                y.func.id == 'hasattr' and len(y.args) == 2
                                and not isinstance(y.args[1], ast.Constant)
                                for y in ast.walk(st.test)) and st.body and \
                                isinstance(st.body[-1], (ast.Return,
                                                         ast.Raise,
                                                         ast.Continue)):
                            ok = True
                            kinds = ['method'] + kinds
        r.instance(fi.where, f'if-chain at {norm(tests[0])}',
                   ' < '.join(k for k in kinds if k) if ok
                   else 'SPECIAL FORMAT TESTED FIRST')
        if not ok:
            r.finding(fi.where, f'chain: {" / ".join(k or "-" for k in kinds)}',
                      'a named special format is tried before a method of '
                      'the value (or the method test is gone): a value '
                      'whose own method has the name of a registered format '
                      'is formatted by the built-in instead', node=x, ctx=fi)
    if n < 1:
        raise AnalysisError(f'C15.R10: no fmt dispatch chain found in '
                            'Var.render or its helpers')
    return r


class _TS(BaseState):
    def __init__(self, cut=False):
        self.cut = cut

    def key(self):
        return (self.cut,)

    def copy(self):
        n = _TS(self.cut)
        n.trace = self.trace
        return n


class _TruncDomain(Domain):
    """The function that truncates, in the scenario len(V) <rel> S."""

    def __init__(self, v, s_, rel):
        self.v, self.s, self.rel = v, s_, rel

    def truth(self, e):
        if isinstance(e, ast.UnaryOp) and isinstance(e.op, ast.Not):
            t = self.truth(e.operand)
            return None if t is None else not t
        if isinstance(e, ast.Compare) and len(e.ops) == 1:
            l, r_ = norm(e.left), norm(e.comparators[0])
            rel = None
            if l == f'len({self.v})' and r_ == self.s:
                rel = self.rel
            elif r_ == f'len({self.v})' and l == self.s:
                rel = {'lt': 'gt', 'gt': 'lt', 'eq': 'eq'}[self.rel]
            if rel is None:
                return None
            return {ast.Lt: rel == 'lt', ast.Gt: rel == 'gt',
                    ast.LtE: rel != 'gt', ast.GtE: rel != 'lt',
                    ast.Eq: rel == 'eq', ast.NotEq: rel != 'eq'}.get(
                        type(e.ops[0]))
        return None

    def branch(self, test, st):
        t = self.truth(test)
        if t is None:
            return [(True, st), (False, st)]
        return [(t, st)]

    def raises(self, node, st):
        return []

    def _cuts(self, node):
        for x in ast.walk(node):
            if isinstance(x, ast.Subscript) and norm(x.value) == self.v \
                    and isinstance(x.slice, ast.Slice) and \
                    x.slice.upper is not None and \
                    norm(x.slice.upper) == self.s and \
                    isinstance(x.ctx, ast.Load):
                return True
        return False

    def effects(self, stmt, st):
        if self._cuts(stmt) and not st.cut:
            st = st.copy()
            st.cut = True
        return st

    def on_return(self, node, st):
        if node.value is not None and self._cuts(node.value):
            st = st.copy()
            st.cut = True
        return [], st


def rule_size_boundary(model):
    r = RuleResult('C15.R12', 'size= truncates only a text that is LONGER '
                   'than size: a text of exactly size characters (and any '
                   'shorter one) is inserted whole, without the etc text')
    ren = model.func('DT_Var', 'Var.render')
    n = 0
    for f in model.closure(ren):
        pairs = set()
        for c in own_nodes(f.node):
            if isinstance(c, ast.Compare) and len(c.ops) == 1:
                for a_, b_ in ((c.left, c.comparators[0]),
                               (c.comparators[0], c.left)):
                    if isinstance(a_, ast.Call) and norm(a_.func) == 'len' \
                            and len(a_.args) == 1 and isinstance(
                                a_.args[0], ast.Name) and isinstance(
                                b_, ast.Name):
                        pairs.add((a_.args[0].id, b_.id))
        for v, sz in sorted(pairs):
            probe = _TruncDomain(v, sz, 'gt')
            if not any(probe._cuts(x) for x in own_nodes(f.node)):
                continue
            n += 1
            res = {}
            for rel in ('lt', 'eq', 'gt'):
                dom = _TruncDomain(v, sz, rel)
                outs = Interp(dom).run(f.node, _TS())
                ends = [o for o in outs if o.kind in (NORMAL, 'return')]
                res[rel] = (sum(1 for o in ends if o.state.cut), len(ends))
            r.instance(f.where, f'len({v}) vs {sz}',
                       'cut paths/paths: ' + ', '.join(
                           f'{k}: {a}/{b}' for k, (a, b) in res.items()))
            for rel, what in (('lt', 'shorter than'), ('eq', 'exactly')):
                if res[rel][0]:
                    r.finding(f.where, f'len({v}) vs {sz}', f'a text that '
                              f'is {what} size characters long is cut '
                              '(and gets the etc text appended): the test '
                              'that guards the truncation is off by one',
                              node=f.node, ctx=f)
            if not res['gt'][0]:
                r.finding(f.where, f'len({v}) vs {sz}', 'a text longer than '
                          'size is not truncated', node=f.node, ctx=f)
    if n < 1:
        raise AnalysisError('C15.R12: the size truncation of dtml-var was '
                            'not found')
    return r


RULES = [rule_table, rule_stages, rule_agreements, rule_membership,
         rule_pipeline_order, rule_missing, rule_format_verbatim,
         rule_fmt_dispatch, rule_frozen_options, rule_size_boundary]
EXPLANATION = (
    'Table queries on the modifier table and the option grammar of '
    'dtml-var, iteration-source query, statement-order check of the stage '
    'markers of Var.render, name/function agreement checks.')
ASSUMPTIONS = ['does not decide truncation arithmetic nor round-trip laws '
               'on values']
TRUSTED = ['python ast']
