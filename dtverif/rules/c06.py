"""C06 -- compiling terminates polynomially and fails only with a located
ParseError.

R1 no exponentially ambiguous regex in the compile phase
R2 raise discipline: only ParseError(message, tag); shorthand Eval wrapped
R3 partial operations guarded: (a) no single-character index on the source
   text, (b) parameter-dict subscripts dominated by a membership test / store,
   (c) no destructuring of a caught exception
R4 error location pairs with the offending tag (origin pairing)
R5 input-proportional recursion (call-graph cycles of the compile phase)
R6 the tag registry resolves
"""
import ast

from ..callgraph import recv_is_external
import re

from ..callgraph import CallGraph
from ..core import AnalysisError
from ..core import RuleResult
from ..core import norm
from ..flow import BaseState
from ..flow import Domain
from ..flow import Interp
from ..model import ancestors
from ..model import own_nodes
from .. import regexa


def _cg(model):
    cg = getattr(model, '_dt_cg', None)
    if cg is None:
        cg = model._dt_cg = CallGraph(model)
        model._dt_compile = cg.compile_phase()
    return cg


def compile_funcs(model):
    cg = _cg(model)
    return [cg.funcs[w] for w in sorted(model._dt_compile)]


# ---------------------------------------------------------------- R1
def regex_sites(model):
    """All re.compile(<constant>) calls: (ctx fi|None, module, call node,
    pattern, flags) -- function bodies, default arguments, module level."""
    out = []
    for m in model.modules.values():
        for n in ast.walk(m.tree):
            if not isinstance(n, ast.Call):
                continue
            f = n.func
            if not (isinstance(f, ast.Attribute) and f.attr == 'compile' and
                    isinstance(f.value, ast.Name)):
                continue
            r = model.resolve_global(m, f.value.id)
            if not (r and r[0] == 'ext' and r[1] == 're'):
                continue
            # owner: nearest enclosing def
            owner = None
            for a in ancestors(n):
                if isinstance(a, (ast.FunctionDef, ast.AsyncFunctionDef)):
                    owner = a._dt_func
                    break
            ok, pat = model.fold(n.args[0], owner, m) if n.args \
                else (False, None)
            flags = 0
            fl_nodes = n.args[1:2] + [k.value for k in n.keywords
                                      if k.arg == 'flags']
            for fn in fl_nodes:
                for x in ast.walk(fn):
                    if isinstance(x, ast.Attribute) and \
                            hasattr(re, x.attr) and x.attr.isupper():
                        flags |= int(getattr(re, x.attr))
            out.append((owner, m, n, pat if ok else None, flags))
    return out


MATCH_METHODS = {'match', 'search', 'fullmatch', 'sub', 'subn', 'split',
                 'findall', 'finditer'}


def _applied_while_compiling(model, owner, call, comp):
    """Where a pattern object built from non-constant text is applied by
    code that runs while a template is compiled (None: nowhere).  The
    object is followed through locals, attributes of self and the return
    value of helpers; building it is harmless, matching with it is not."""
    cfuncs = [f for f in model.all_funcs() if f.where in comp]
    locs, attrs, rets = set(), set(), set()

    def sink(node, fi):
        # node: an expression holding the pattern object, inside fi
        par = getattr(node, '_dt_parent', None)
        if isinstance(par, ast.Attribute) and par.attr in MATCH_METHODS:
            return f'{fi.where}:{par.lineno}'
        if isinstance(par, (ast.Assign, ast.AnnAssign, ast.NamedExpr)):
            tg = par.targets if isinstance(par, ast.Assign) else [par.target]
            for t in tg:
                if isinstance(t, ast.Name):
                    locs.add((fi.where, t.id))
                elif isinstance(t, ast.Attribute):
                    attrs.add(t.attr)
                else:
                    return f'{fi.where}:{par.lineno}'
        elif isinstance(par, ast.Return):
            rets.add(fi.where)
        elif isinstance(par, ast.Call) and node in par.args:
            # handed to some other code: re.match(p, ...) or unknown
            return f'{fi.where}:{par.lineno}'
        return None
    hit = sink(call, owner)
    if hit:
        return hit
    for _ in range(4):
        before = (len(locs), len(attrs), len(rets))
        for fi in cfuncs:
            for n in own_nodes(fi.node):
                holds = False
                if isinstance(n, ast.Name) and isinstance(n.ctx, ast.Load) \
                        and (fi.where, n.id) in locs:
                    holds = True
                elif isinstance(n, ast.Attribute) and isinstance(
                        n.ctx, ast.Load) and n.attr in attrs and \
                        isinstance(n.value, ast.Name) and \
                        n.value.id == 'self':
                    holds = True
                elif isinstance(n, ast.Call):
                    for t in model.resolve_callee(n.func, fi):
                        if t[0] == 'func' and t[1].where in rets:
                            holds = True
                if not holds:
                    continue
                par = getattr(n, '_dt_parent', None)
                if isinstance(par, (ast.Compare, ast.BoolOp, ast.UnaryOp,
                                    ast.If, ast.IfExp)):
                    continue
                hit = sink(n, fi)
                if hit:
                    return hit
        if (len(locs), len(attrs), len(rets)) == before:
            break
    return None


def rule_regex(model):
    r = RuleResult('C06.R1', 'no regular expression used while compiling a '
                   'template is exponentially ambiguous (catastrophic '
                   'backtracking)')
    comp = model._dt_compile if _cg(model) else set()
    n_const = 0
    for owner, m, node, pat, flags in regex_sites(model):
        where = owner.where if owner else m.short + ':<module>'
        in_compile = owner is not None and owner.where in comp
        # module-level / class-level patterns of compile-phase modules
        if owner is None:
            in_compile = any(w.startswith(m.short + ':') for w in comp)
        if pat is None:
            used = _applied_while_compiling(model, owner, node, comp) \
                if in_compile and owner is not None else None
            r.instance(where, node, 'dynamic pattern (not analysed: '
                       'render-time use only)' if not used else
                       'dynamic pattern APPLIED WHILE COMPILING',
                       compile_phase=in_compile)
            if used:
                r.finding(where, node, 'compile-phase regex whose pattern '
                          'is not a constant (it is applied at ' + used +
                          ' while the template is compiled)', node=node,
                          ctx=owner or m)
            continue
        n_const += 1
        try:
            w = regexa.eda(pat, flags)
            size = regexa.nfa_size(pat, flags)
        except regexa.Unsupported as e:
            if in_compile:
                raise AnalysisError(f'C06.R1: {where}: {e}')
            r.instance(where, repr(pat), f'not analysed ({e}); not used '
                       'while compiling', compile_phase=False)
            continue
        r.instance(where, repr(pat), 'EDA' if w else 'unambiguous-or-'
                   'polynomial', nfa_states=size,
                   compile_phase=in_compile)
        if w and in_compile:
            r.finding(where, repr(pat), 'regular expression is '
                      'exponentially ambiguous: a failing input makes the '
                      'backtracking matcher take exponentially many paths '
                      f'({w.get("reason") or "pumpable NFA state"})',
                      node=node, ctx=owner or m)
    r.stats = {'constant_patterns': n_const}
    if n_const < 12:
        raise AnalysisError(f'C06.R1: only {n_const} constant patterns '
                            'found (floor 12)')
    r.floor = 12
    r.control('control: (a+)*', bool(regexa.eda('x(a+)*y')))
    r.control('control: a*a* is fine', not regexa.eda('a*a*b'))
    return r


# ---------------------------------------------------------------- R2
def _exc_name(node):
    e = node.exc
    if isinstance(e, ast.Call):
        e = e.func
    if isinstance(e, ast.Name):
        return e.id
    if isinstance(e, ast.Attribute):
        return e.attr
    return None


def rule_raise(model):
    r = RuleResult('C06.R2', 'compile-phase code raises only '
                   'ParseError(message, tag); the "..." shorthand wraps '
                   'SyntaxError; parser recursion is never inside a '
                   'ParseError handler')
    for fi in compile_funcs(model):
        for n in own_nodes(fi.node):
            if isinstance(n, ast.Raise):
                if n.exc is None:
                    r.instance(fi.where, n, 're-raise')
                    continue
                name = _exc_name(n)
                nargs = len(n.exc.args) if isinstance(n.exc, ast.Call) \
                    else 0
                r.instance(fi.where, n, f'{name}/{nargs}')
                terminal = fi.name == 'parse_error'
                if name != 'ParseError':
                    r.finding(fi.where, n, f'raises {name}, not the '
                              "parser's ParseError", node=n, ctx=fi)
                elif not terminal and nargs != 2:
                    r.finding(fi.where, n, 'ParseError raised with '
                              f'{nargs} argument(s); handlers read '
                              'args[0] (message) and args[1] (tag)',
                              node=n, ctx=fi)
            if isinstance(n, ast.Call):
                # Eval(<shorthand>) must be wrapped
                names = model.callee_names(n, fi)
                if any(x.endswith(':Eval') for x in names) and n.args:
                    a = n.args[0]
                    shorthand = False
                    if isinstance(a, ast.Name):
                        for d in model.local_defs(fi, a.id):
                            if isinstance(d, ast.Subscript) and \
                                    isinstance(d.slice, ast.Slice) and \
                                    norm(d.slice) == '1:-1':
                                shorthand = True
                    if shorthand:
                        ok = False
                        prev = n
                        for anc in ancestors(n):
                            if isinstance(anc, ast.Try) and any(
                                    prev is b or prev in ast.walk(b)
                                    for b in anc.body):
                                for h in anc.handlers:
                                    hn = norm(h.type) if h.type else ''
                                    if 'SyntaxError' in hn and any(
                                            isinstance(x, ast.Raise) and
                                            _exc_name(x) == 'ParseError'
                                            for x in ast.walk(h)):
                                        ok = True
                            if isinstance(anc, (ast.FunctionDef,)):
                                break
                            prev = anc
                        r.instance(fi.where, n, 'shorthand Eval ' +
                                   ('wrapped' if ok else 'UNWRAPPED'))
                        if not ok:
                            r.finding(fi.where, n, 'expression shorthand '
                                      'compiled without converting '
                                      'SyntaxError to ParseError', node=n,
                                      ctx=fi)
    # recursion into the parser never inside try..except ParseError
    for fi in compile_funcs(model):
        if fi.cls is None or fi.cls.name != 'String':
            continue
        for n in own_nodes(fi.node):
            if isinstance(n, ast.Call) and isinstance(n.func,
                                                      ast.Attribute) \
                    and n.func.attr in ('parse', 'parse_block',
                                        'parse_close'):
                bad = False
                prev = n
                for anc in ancestors(n):
                    if isinstance(anc, ast.Try) and any(
                            prev is b or prev in ast.walk(b)
                            for b in anc.body) and anc.handlers:
                        bad = True
                    if isinstance(anc, ast.FunctionDef):
                        break
                    prev = anc
                r.instance(fi.where, n, 'parser recursion')
                if bad:
                    r.finding(fi.where, n, 'recursive parser call inside a '
                              'try with handlers: a located ParseError '
                              'would be re-wrapped', node=n, ctx=fi)
    r.require_floor(25)
    return r


# ---------------------------------------------------------------- R3
def source_text_params(model):
    """(function where -> set of param names) that hold the template source,
    by propagation from String.parse's first parameter."""
    cg = _cg(model)
    start = model.func('DT_String', 'String.parse')
    ps = start.params()
    if len(ps) < 2:
        raise AnalysisError('String.parse signature changed')
    holds = {start.where: {ps[1]}}
    work = [start.where]
    while work:
        w = work.pop()
        fi = cg.funcs[w]
        for n in own_nodes(fi.node):
            if not isinstance(n, ast.Call):
                continue
            for t in model.resolve_callee(n.func, fi):
                tgt = None
                if t[0] == 'func':
                    tgt = t[1]
                elif t[0] == 'method' and t[1] == 'search' and \
                        not recv_is_external(model, t[2], fi):
                    c = model.find_func('DT_HTML', 'dtml_re_class.search')
                    tgt = c
                if tgt is None:
                    continue
                params = tgt.params()
                off = 1 if tgt.cls is not None and params[:1] == ['self'] \
                    else 0
                for i, a in enumerate(n.args):
                    if isinstance(a, ast.Name) and \
                            a.id in holds.get(w, ()) and \
                            i + off < len(params):
                        p = params[i + off]
                        if p not in holds.setdefault(tgt.where, set()):
                            holds[tgt.where].add(p)
                            work.append(tgt.where)
    return holds


def _prefix_len(test, tname, base):
    """Number of characters of `tname` from offset `base` on that certainly
    exist when `test` is true: `T[base:base+w] == 'lit'` (a slice equal to
    a literal has the literal's length) and `T.startswith('lit', base)`."""
    from ..linear import lin_eq
    if isinstance(test, ast.BoolOp):
        vals = [_prefix_len(v, tname, base) for v in test.values]
        return min(vals) if isinstance(test.op, ast.Or) else max(vals)
    if isinstance(test, ast.Compare) and len(test.ops) == 1 and \
            isinstance(test.ops[0], ast.Eq):
        for a, b in ((test.left, test.comparators[0]),
                     (test.comparators[0], test.left)):
            if isinstance(a, ast.Subscript) and \
                    isinstance(a.value, ast.Name) and a.value.id == tname \
                    and isinstance(a.slice, ast.Slice) and \
                    a.slice.lower is not None and \
                    isinstance(b, ast.Constant) and isinstance(b.value, str) \
                    and lin_eq(a.slice.lower, base):
                return len(b.value)
    if isinstance(test, ast.Call) and isinstance(test.func, ast.Attribute) \
            and test.func.attr == 'startswith' and \
            isinstance(test.func.value, ast.Name) and \
            test.func.value.id == tname and len(test.args) == 2 and \
            isinstance(test.args[0], ast.Constant) and \
            isinstance(test.args[0].value, str) and \
            lin_eq(test.args[1], base):
        return len(test.args[0].value)
    return 0


def _index_within_matched_prefix(sub, fi):
    """Is T[base + k] inside the body of a test that matched a literal
    prefix of more than k characters at `base`?"""
    from ..linear import NonLinear
    from ..linear import linear
    tname = sub.value.id
    try:
        f = linear(sub.slice)
    except NonLinear:
        return False
    k = f.get('', 0)
    rest = {v: c for v, c in f.items() if v}
    if len(rest) != 1 or list(rest.values()) != [1] or k < 0:
        return False
    base = ast.Name(id=next(iter(rest)), ctx=ast.Load())
    child = sub
    for anc in ancestors(sub):
        if isinstance(anc, (ast.FunctionDef, ast.AsyncFunctionDef)):
            break
        if isinstance(anc, ast.If) and any(
                child is x or any(child is y for y in ast.walk(x))
                for x in anc.body):
            if _prefix_len(anc.test, tname, base) > k:
                # the base variable must not be re-assigned in between
                return True
        child = anc
    return False


def rule_partial(model):
    ra = RuleResult('C06.R3a', 'the scanner never indexes a single '
                    'character of the source text (slices are total)')
    holds = source_text_params(model)
    cg = _cg(model)
    for w, names in sorted(holds.items()):
        fi = cg.funcs[w]
        for n in own_nodes(fi.node):
            if isinstance(n, ast.Subscript) and \
                    isinstance(n.value, ast.Name) and n.value.id in names \
                    and isinstance(n.ctx, ast.Load):
                if isinstance(n.slice, ast.Slice):
                    ra.instance(w, n, 'slice')
                    continue
                guarded = False
                for anc in ancestors(n):
                    if isinstance(anc, ast.Try) and any(
                            h.type is None or 'IndexError' in norm(h.type)
                            or norm(h.type) in ('Exception', 'LookupError')
                            for h in anc.handlers):
                        guarded = True
                    if isinstance(anc, ast.FunctionDef):
                        break
                if not guarded:
                    guarded = _index_within_matched_prefix(n, fi)
                if not guarded and w == 'DT_HTML:dtml_re_class.search':
                    # prefix-knowledge interpretation: the index is inside
                    # what the tests taken say the text starts with, on
                    # every path that evaluates it
                    from . import scan
                    ent = scan.scan(model).index.get(id(n))
                    guarded = bool(ent and ent[1] and all(ent[1]))
                ra.instance(w, n, 'index' + (' (guarded)' if guarded
                                             else ''))
                if not guarded:
                    ra.finding(w, n, 'single-character index on the '
                               'template source: IndexError when the source '
                               'ends here', node=n, ctx=fi)
    if len(holds) < 5:
        raise AnalysisError('C06.R3a: source text reaches fewer than 5 '
                            'functions')
    ra.require_floor(8)

    rb = RuleResult('C06.R3b', 'subscripts of tag-parameter dictionaries '
                    'are dominated by a membership test or a store of that '
                    'key')
    mi_ = model.inlined_view()
    _cg(mi_)
    plain_funcs = {f.where: f for f in compile_funcs(model)}
    inl_funcs = list(compile_funcs(mi_))
    fell_back = []
    work = list(inl_funcs)
    while work:
        fi = work.pop(0)
        mdl = model if fi is plain_funcs.get(fi.where) else mi_
        dicts = _param_dicts(mdl, fi)
        if not dicts:
            continue
        dom = KeyDomain(mdl, fi, dicts)
        it = Interp(dom, max_states=60000)
        it.run(fi.node, KS())
        if it.overflow and fi.where in plain_funcs and \
                fi is not plain_funcs[fi.where]:
            # the view with constant loops unrolled has too many paths
            # here: the function as written (loops kept) is judged instead
            # -- together with the helpers that had been inlined into it
            seen_w = {f.where for f in inl_funcs} | set(fell_back)
            fell_back.append(fi.where)
            fi = plain_funcs[fi.where]
            for h in model.closure(fi):
                if h is not fi and h.where in plain_funcs and \
                        h.where not in seen_w:
                    work.append(plain_funcs[h.where])
                    fell_back.append(h.where)
            dicts = _param_dicts(model, fi)
            if not dicts:
                continue
            dom = KeyDomain(model, fi, dicts)
            it = Interp(dom, max_states=60000)
            it.run(fi.node, KS())
        if it.overflow:
            raise AnalysisError(f'C06.R3b: state budget in {fi.where}')
        for node, ok in dom.sites.values():
            rb.instance(fi.where, node, 'guarded' if ok else 'UNGUARDED')
            if not ok:
                rb.finding(fi.where, node, 'parameter dictionary subscript '
                           'not dominated by a membership test / store: '
                           'KeyError escapes the compiler', node=node,
                           ctx=fi)
    rb.require_floor(15)

    rc = RuleResult('C06.R3c', 'a caught exception object is never '
                    'destructured')
    nh = 0
    for fi in compile_funcs(model):
        for n in own_nodes(fi.node):
            if isinstance(n, ast.ExceptHandler) and n.name:
                nh += 1
                rc.instance(fi.where, f'except {norm(n.type)} as {n.name}')
                for x in ast.walk(n):
                    if isinstance(x, ast.Assign) and \
                            isinstance(x.value, ast.Name) and \
                            x.value.id == n.name and any(
                                isinstance(t, (ast.Tuple, ast.List))
                                for t in x.targets):
                        rc.finding(fi.where, x, 'unpacking an exception '
                                   'object raises TypeError (exceptions are '
                                   'not iterable)', node=x, ctx=fi)
    rc.require_floor(4)
    return [ra, rb, rc]


def _param_dicts(model, fi, _depth=0):
    out = set()
    for n in own_nodes(fi.node):
        if isinstance(n, ast.Assign) and isinstance(n.value, ast.Call):
            names = model.callee_names(n.value, fi)
            if 'DT_Util:parse_params' in names:
                for t in n.targets:
                    if isinstance(t, ast.Name):
                        out.add(t.id)
                    elif isinstance(t, ast.Attribute):
                        out.add(norm(t))
                    # chained:  self.args = args = parse_...()
    # a helper of a constructor that is handed the dictionary:
    #   self._init_batching(args)
    if _depth < 2 and fi.where not in ('DT_Util:name_param',
                                       'DT_Util:parse_params'):
        peers = [g for g in fi.module.funcs.values()
                 if g is not fi and (g.cls is fi.cls or fi.cls is None)]
        sites = model.helper_calls(peers, fi)
        for p_ in fi.params():
            if sites and all(
                    m is not None and p_ in m and
                    norm(m[p_]) in _param_dicts(model, h, _depth + 1)
                    for h, c, m in sites):
                out.add(p_)
    if fi.where == 'DT_Util:name_param':
        out.add(fi.params()[0])
    if fi.where == 'DT_Util:parse_params' and fi.node.args.kwarg:
        out.add(fi.node.args.kwarg.arg)
    return out


class KS(BaseState):
    __slots__ = ('facts', 'trace', 'cur_exc')

    def __init__(self, facts=frozenset()):
        self.facts = facts
        self.trace = ()
        self.cur_exc = None

    def key(self):
        return self.facts

    def copy(self):
        n = KS(self.facts)
        n.trace = self.trace
        return n


def _keytext(e):
    if isinstance(e, ast.Constant):
        return repr(e.value)
    if isinstance(e, ast.Name):
        return '$' + e.id
    if isinstance(e, ast.Subscript) and isinstance(e.value, ast.Name) and \
            isinstance(e.slice, ast.Constant):
        return '$' + e.value.id + '[' + repr(e.slice.value) + ']'
    return None


class KeyDomain(Domain):
    def __init__(self, model, fi, dicts):
        self.model = model
        self.fi = fi
        self.dicts = dicts
        self.sites = {}

    def _check(self, node, st):
        for n in _walk_no_lambda(node):
            if isinstance(n, ast.Subscript) and isinstance(n.ctx, ast.Load) \
                    and norm(n.value) in self.dicts \
                    and not isinstance(n.slice, ast.Slice):
                kt = _keytext(n.slice)
                ok = kt is not None and (norm(n.value), kt) in st.facts
                if not ok:
                    # inside a try that converts KeyError
                    for anc in ancestors(n):
                        if isinstance(anc, ast.Try) and any(
                                h.type is None or norm(h.type) in (
                                    'KeyError', 'Exception', 'LookupError')
                                for h in anc.handlers):
                            ok = True
                        if isinstance(anc, ast.FunctionDef):
                            break
                prev = self.sites.get(id(n))
                self.sites[id(n)] = (n, ok and (prev is None or prev[1]))

    def raises(self, node, st):
        return []

    def effects(self, stmt, st):
        # short-circuit inside plain expression statements / assignments:
        # evaluate BoolOp chains through branch() for precision
        self._eval(stmt, st)
        facts = set(st.facts)
        changed = False
        for n in ast.walk(stmt):
            if isinstance(n, (ast.Assign, ast.AugAssign, ast.AnnAssign)):
                tgts = n.targets if isinstance(n, ast.Assign) \
                    else [n.target]
                for t in tgts:
                    for x in ast.walk(t):
                        if isinstance(x, ast.Subscript) and \
                                norm(x.value) in self.dicts:
                            kt = _keytext(x.slice)
                            if kt:
                                facts.add((norm(x.value), kt))
                                changed = True
                        elif isinstance(x, ast.Name) and \
                                isinstance(x.ctx, ast.Store):
                            for f in list(facts):
                                if f[1] == '$' + x.id or f[0] == x.id:
                                    facts.discard(f)
                                    changed = True
            elif isinstance(n, ast.Delete):
                for t in n.targets:
                    if isinstance(t, ast.Subscript) and \
                            norm(t.value) in self.dicts:
                        kt = _keytext(t.slice)
                        facts.discard((norm(t.value), kt))
                        changed = True
        # key alias:  given_as = ''  /  given_as = attr  -- what is known
        # about the key on the right holds for the name on the left
        if isinstance(stmt, ast.Assign) and len(stmt.targets) == 1 and \
                isinstance(stmt.targets[0], ast.Name) and isinstance(
                    stmt.value, (ast.Constant, ast.Name)):
            kt = _keytext(stmt.value)
            for d_, k_ in list(facts):
                if k_ == kt:
                    facts.add((d_, '$' + stmt.targets[0].id))
                    changed = True
        if changed:
            st = KS(frozenset(facts))
        return st

    def _eval(self, node, st):
        """Check subscripts, honouring short-circuit guards."""
        for n in _walk_no_lambda(node, stop_boolop=True):
            if isinstance(n, (ast.BoolOp, ast.IfExp)):
                self._eval_bool(n, st)
        self._check_skip_bool(node, st)

    def _check_skip_bool(self, node, st):
        for n in _walk_no_lambda(node, stop_boolop=True):
            if isinstance(n, ast.Subscript):
                self._check(n, st) if not _inside_bool(n, node) else None
        # plain subscripts not below a BoolOp
        for n in _walk_no_lambda(node, stop_boolop=True):
            if isinstance(n, ast.Subscript) and isinstance(n.ctx, ast.Load) \
                    and norm(n.value) in self.dicts:
                self._check(n, st)

    def _eval_bool(self, e, st):
        if isinstance(e, ast.IfExp):
            self._eval(e.test, st)
            for b, s in Interp(self).branch(e.test, st):
                self._eval(e.body if b else e.orelse, s)
            return
        cur = [st]
        is_and = isinstance(e.op, ast.And)
        for v in e.values:
            nxt = []
            for s in cur:
                self._eval(v, s)
                for b, s2 in Interp(self).branch(v, s):
                    if b == is_and:
                        nxt.append(s2)
            cur = nxt or []
            if not cur:
                break

    def branch(self, test, st):
        self._eval(test, st) if not isinstance(test, ast.BoolOp) else None
        if isinstance(test, ast.Compare) and len(test.ops) == 1 and \
                isinstance(test.ops[0], (ast.In, ast.NotIn)):
            d = norm(test.comparators[0])
            kt = _keytext(test.left)
            if d in self.dicts and kt:
                pos = isinstance(test.ops[0], ast.In)
                t = KS(st.facts | {(d, kt)})
                t.trace = st.trace
                return [(pos, t), (not pos, st)]
        return [(True, st), (False, st)]

    def on_return(self, node, st):
        if node.value is not None:
            self._eval(node.value, st)
        return [], st

    def for_target(self, node, st):
        self._eval(node.iter, st)
        facts = set(st.facts)
        for x in ast.walk(node.target):
            if isinstance(x, ast.Name):
                for f in list(facts):
                    if f[1] == '$' + x.id or f[0] == x.id:
                        facts.discard(f)
        return KS(frozenset(facts))


def _walk_no_lambda(node, stop_boolop=False):
    stack = [node]
    while stack:
        n = stack.pop()
        yield n
        if isinstance(n, (ast.Lambda, ast.FunctionDef, ast.ClassDef)):
            continue
        if stop_boolop and isinstance(n, (ast.BoolOp, ast.IfExp)) and \
                n is not node:
            continue
        stack.extend(ast.iter_child_nodes(n))


def _inside_bool(n, root):
    for a in ancestors(n):
        if a is root:
            return False
        if isinstance(a, (ast.BoolOp, ast.IfExp)):
            return True
    return False


# ---------------------------------------------------------------- R4
def rule_location(model):
    r = RuleResult('C06.R4', 'every located error names a tag and the offset '
                   'of that same tag')
    S = model.cls('DT_String', 'String')
    core = [f for f in S.methods.values()
            if f.name in ('parse', 'parse_block', 'parse_close')]
    if len(core) != 3:
        raise AnalysisError('parse/parse_block/parse_close not all found')
    # every method that reports located errors (helpers included)
    parser = [f for f in S.methods.values() if f.name != 'parse_error' and
              any(isinstance(n, ast.Call) and
                  isinstance(n.func, ast.Attribute) and
                  n.func.attr == 'parse_error' and len(n.args) == 4
                  for n in own_nodes(f.node))]
    for f in core:
        if f not in parser:
            parser.append(f)
    perr = model.func('DT_String', 'String.parse_error')
    pp = perr.params()
    if len(pp) != 5:
        raise AnalysisError('parse_error signature changed')

    def origins(fi, _depth=0):
        """name -> origin; origin = ('match', var) | ('param', name)"""
        org = {}
        for p in fi.params():
            org[p] = ('param', p)
        for n in own_nodes(fi.node):
            if isinstance(n, ast.Assign) and len(n.targets) == 1:
                t, v = n.targets[0], n.value
                # l_ = mo.start(0)
                if isinstance(t, ast.Name) and isinstance(v, ast.Call) and \
                        isinstance(v.func, ast.Attribute) and \
                        v.func.attr == 'start' and \
                        isinstance(v.func.value, ast.Name):
                    org[t.id] = ('match', v.func.value.id)
                # tag, args, command, coname = self._parseTag(mo, ...)
                if isinstance(t, ast.Tuple) and isinstance(v, ast.Call) and \
                        isinstance(v.func, ast.Attribute) and \
                        'parseTag' in v.func.attr and \
                        v.args and isinstance(v.args[0], ast.Name) and \
                        t.elts and isinstance(t.elts[0], ast.Name):
                    org[t.elts[0].id] = ('match', v.args[0].id)
                # loc, tag, ... = self.helper(...): the helper returns a
                # tuple of its own locals -- take over their origins; two
                # results of one call that stem from one match stay paired
                if isinstance(t, ast.Tuple) and isinstance(v, ast.Call) and \
                        isinstance(v.func, ast.Attribute) and \
                        norm(v.func.value) == 'self' and \
                        'parseTag' not in v.func.attr and _depth < 2:
                    h = S.methods.get(v.func.attr)
                    rets = [x for x in own_nodes(h.node)
                            if isinstance(x, ast.Return)] if h else []
                    if h is not None and rets and all(
                            isinstance(x.value, ast.Tuple) and
                            len(x.value.elts) == len(t.elts)
                            for x in rets):
                        horg = origins(h, _depth + 1)
                        for i, te in enumerate(t.elts):
                            if not isinstance(te, ast.Name):
                                continue
                            os_ = {horg.get(x.value.elts[i].id)
                                   if isinstance(x.value.elts[i], ast.Name)
                                   else None for x in rets}
                            if len(os_) == 1:
                                o = next(iter(os_))
                                if o and o[0] == 'match':
                                    org[te.id] = (
                                        'match', f'{h.name}@'
                                        f'{getattr(v, "lineno", 0)}:{o[1]}')
        # plain aliases  a = b
        for _ in range(3):
            for n in own_nodes(fi.node):
                if isinstance(n, ast.Assign) and len(n.targets) == 1 and \
                        isinstance(n.targets[0], ast.Name) and \
                        isinstance(n.value, ast.Name) and \
                        n.value.id in org and \
                        len(model.local_defs(fi, n.targets[0].id)) == 1:
                    org[n.targets[0].id] = org[n.value.id]
        # a name that already stands for one tag occurrence (a parameter,
        # the current match) and is re-assigned from a name standing for
        # another one no longer identifies either
        for n in own_nodes(fi.node):
            if isinstance(n, ast.Assign) and len(n.targets) == 1 and \
                    isinstance(n.targets[0], ast.Name) and \
                    isinstance(n.value, ast.Name) and \
                    n.targets[0].id in org and n.value.id in org and \
                    len(model.local_defs(fi, n.targets[0].id)) > 1 and \
                    org[n.value.id] != org[n.targets[0].id] and \
                    org[n.targets[0].id][0] != 'mixed':
                org[n.targets[0].id] = (
                    'mixed', f'{org[n.targets[0].id]} / {org[n.value.id]}')
        return org

    def handler_match(fi, node):
        """If node is inside `except ParseError as m` of a try whose body
        calls _parseTag(M): -> (handler var, M)"""
        for anc in ancestors(node):
            if isinstance(anc, ast.ExceptHandler) and anc.name:
                tr = getattr(anc, '_dt_parent', None)
                if isinstance(tr, ast.Try):
                    for b in tr.body:
                        for c in ast.walk(b):
                            if isinstance(c, ast.Call) and \
                                    isinstance(c.func, ast.Attribute) and \
                                    'parseTag' in c.func.attr and c.args \
                                    and isinstance(c.args[0], ast.Name):
                                return anc.name, c.args[0].id
                    return anc.name, None
        return None, None

    def origin_of(expr, fi, org, node):
        if isinstance(expr, ast.Name):
            return org.get(expr.id)
        # m.args[1]
        if isinstance(expr, ast.Subscript) and \
                isinstance(expr.value, ast.Attribute) and \
                expr.value.attr == 'args' and \
                isinstance(expr.value.value, ast.Name):
            hv, mv = handler_match(fi, node)
            if hv == expr.value.value.id and mv:
                return ('match', mv)
        return None

    # parameter pairing (stag, sloc): all call sites pass same-origin args;
    # iterated, because a helper's pairs depend on those of its callers
    callee_names = {f.name for f in parser} - {'parse'}
    prev = {}
    for _round in range(4):
        pairs = {}
        for callee in parser:
            params = callee.params()[1:]
            for i in range(len(params)):
                for j in range(len(params)):
                    if i != j:
                        pairs[(callee.where, params[i], params[j])] = None
        for fi in parser:
            org = origins(fi)
            for n in own_nodes(fi.node):
                if isinstance(n, ast.Call) and isinstance(n.func, ast.Attribute)\
                        and n.func.attr in callee_names and \
                        n.func.attr in S.methods:
                    callee = S.methods[n.func.attr]
                    params = callee.params()[1:]
                    ao = [origin_of(a, fi, org, n) for a in n.args]
                    # a match object handed over together with its own offset
                    match_vars = {o[1] for o in org.values()
                                  if o and o[0] == 'match'}
                    for i, a in enumerate(n.args):
                        if isinstance(a, ast.Name) and i < len(params) and \
                                a.id in match_vars:
                            for j, oj in enumerate(ao):
                                if j < len(params) and oj == ('match', a.id):
                                    k = (callee.where, params[i], params[j])
                                    pairs[k] = True if pairs.get(k) is None \
                                        else pairs[k]
                                elif j < len(params) and j != i and oj and \
                                        oj[0] == 'match' and \
                                        (callee.where, params[i],
                                         params[j]) in pairs:
                                    pairs[(callee.where, params[i],
                                           params[j])] = False
                    for i, oi in enumerate(ao):
                        for j, oj in enumerate(ao):
                            if i == j or i >= len(params) or j >= len(params):
                                continue
                            if oi is None or oj is None:
                                continue
                            k = (callee.where, params[i], params[j])
                            same = oi is not None and oi == oj and \
                                oi[0] == 'match'
                            if oi and oj and oi[0] == 'param' and \
                                    oj[0] == 'param' and (
                                        pairs.get((fi.where, oi[1], oj[1]))
                                        or prev.get((fi.where, oi[1],
                                                     oj[1]))):
                                same = True
                            if pairs.get(k) is None:
                                pairs[k] = same
                            else:
                                pairs[k] = pairs[k] and same
        if pairs == prev:
            break
        prev = pairs
    nsites = 0
    for fi in parser:
        org = origins(fi)
        for n in own_nodes(fi.node):
            if isinstance(n, ast.Call) and isinstance(n.func, ast.Attribute)\
                    and n.func.attr == 'parse_error' and len(n.args) == 4:
                nsites += 1
                tag_o = origin_of(n.args[1], fi, org, n)
                loc_o = origin_of(n.args[3], fi, org, n)
                ok = False
                if tag_o and loc_o:
                    if tag_o == loc_o and tag_o[0] == 'match':
                        ok = True
                    elif tag_o[0] == 'match' and loc_o[0] == 'param' and \
                            pairs.get((fi.where, tag_o[1], loc_o[1])):
                        ok = True      # helper given (match, its offset)
                    elif tag_o[0] == 'param' and loc_o[0] == 'param' and \
                            pairs.get((fi.where, tag_o[1], loc_o[1])):
                        ok = True
                r.instance(fi.where, n, 'paired' if ok else 'MISMATCH',
                           tag_origin=str(tag_o), loc_origin=str(loc_o))
                if not ok:
                    r.finding(fi.where, n, 'the error names tag '
                              f'`{norm(n.args[1])}` ({tag_o}) but locates '
                              f'it at `{norm(n.args[3])}` ({loc_o}): the '
                              'reported line is not the line of that tag',
                              node=n, ctx=fi)
    # offsets stay absolute: recursive parse calls get the source itself
    # or a prefix of it (never a slice with a lower bound)
    holds = source_text_params(model)
    for fi in parser:
        names = holds.get(fi.where, set())
        for n in own_nodes(fi.node):
            if isinstance(n, ast.Call) and isinstance(n.func, ast.Attribute)\
                    and n.func.attr in ('parse', 'parse_block',
                                        'parse_close') and n.args:
                a = n.args[0]
                ok = isinstance(a, ast.Name) and a.id in names
                if isinstance(a, ast.Subscript) and \
                        isinstance(a.value, ast.Name) and \
                        a.value.id in names and \
                        isinstance(a.slice, ast.Slice) and \
                        (a.slice.lower is None or (
                            isinstance(a.slice.lower, ast.Constant) and
                            a.slice.lower.value == 0)):
                    ok = True
                r.instance(fi.where, n, 'absolute offsets' if ok
                           else 'RELATIVE offsets')
                if not ok:
                    r.finding(fi.where, n, 'a nested parse is given '
                              f'`{norm(a)}` instead of the source or a '
                              'prefix of it: offsets (and therefore the '
                              'reported line numbers) become relative to '
                              'the section', node=n, ctx=fi)
    r.require_floor(6)
    return r


# ---------------------------------------------------------------- R5
def rule_recursion(model):
    r = RuleResult('C06.R5', 'no input-proportional recursion in the '
                   'compile phase (call-graph cycles)')
    cg = _cg(model)
    comp = model._dt_compile
    for c in cg.sccs(comp):
        fi = cg.funcs[c[0]]
        r.instance(c[0], ' <-> '.join(c), 'cycle')
        r.finding(c[0], 'cycle: ' + ' -> '.join(c), 'recursion whose depth '
                  'is proportional to the input (attributes per tag / '
                  'nesting depth): RecursionError instead of ParseError on '
                  'large inputs', node=fi.node, ctx=fi)
    r.instance('<compile phase>', f'{len(comp)} functions', 'scanned')
    r.stats = {'compile_phase_functions': len(comp)}
    if len(comp) < 30:
        raise AnalysisError('C06.R5: compile phase has fewer than 30 '
                            'functions: call graph lost')
    return r


# ---------------------------------------------------------------- R6
def rule_registry(model):
    r = RuleResult('C06.R6', 'every tag registry entry resolves to a command '
                   'whose name is its key and whose continuations its '
                   'constructor handles')
    cg = _cg(model)
    reg = cg.registry
    for node, msg in reg.problems:
        r.finding('DT_String:String.commands', node, msg, node=node)
    for key, ent in sorted(reg.entries.items()):
        r.instance('DT_String:String.commands', f'{key!r}: '
                   f'{norm(ent["node"])}', ent['kind'] or 'unresolved')
        if ent['cls'] is None:
            continue
        nm = reg.class_attr(ent, 'name')
        if not (isinstance(nm, ast.Constant) and nm.value == key):
            r.finding('DT_String:String.commands', f'{key!r}: name',
                      f'command registered under {key!r} has name '
                      f'{norm(nm) if nm is not None else None}: its end tag '
                      'is never recognised', node=ent['node'])
        bc = reg.class_attr(ent, 'blockContinuations')
        if bc is not None:
            ok, val = model.fold(bc, None, ent['cls'].module)
            if not ok:
                continue
            if isinstance(val, str):
                # `name in command.blockContinuations` is the test the tag
                # readers apply: on a string it is a substring test
                r.finding('DT_String:String.commands',
                          f'{key!r}: blockContinuations = {val!r}',
                          f'the continuation table of {key!r} is the string '
                          f'{val!r}, not a tuple of names: the readers test '
                          '`name in blockContinuations`, so every substring '
                          f'of it ({", ".join(sorted({val[i:j] for i in range(len(val)) for j in range(i + 1, len(val) + 1)} - {val})[:6])} '
                          '...) is accepted as a continuation tag instead of '
                          'being rejected as an unknown tag',
                          node=bc, ctx=ent['cls'].module)
                val = (val,)
            ctor = None
            for k2, f in reg.constructors():
                if k2 == key:
                    ctor = f
            if ctor is None:
                continue
            consts = set()
            for f in [ctor] + [cg.funcs[w] for w in cg.reachable(
                    [ctor.where]) if w.startswith(ctor.module.short + ':')]:
                for x in ast.walk(f.node):
                    if isinstance(x, ast.Constant) and \
                            isinstance(x.value, str):
                        consts.add(x.value)
            missing = [c for c in val if c not in consts]
            if len(missing) > 1:
                r.finding('DT_String:String.commands',
                          f'{key!r}: continuations {missing}',
                          'more than one continuation tag is not mentioned '
                          'by the constructor', node=ent['node'])
    r.require_floor(12)
    return r


PREFIX_REFERENCE = '[A-Za-z][A-Za-z0-9_]*'


def rule_prefix_grammar(model):
    r = RuleResult('C06.R7', 'prefix= is accepted iff it is a simple name: '
                   'the predicate is a regular expression whose language is '
                   'exactly ' + PREFIX_REFERENCE + ' (an ASCII letter, then '
                   'letters, digits, underscores), and every tag that takes '
                   'a prefix rejects other values with a ParseError')
    mu = model.module('DT_Util')
    vals = list(mu.globals.get('simple_name', []))
    fn = mu.funcs.get('simple_name')
    pat = None
    flags = 0
    method = None
    for v in vals:
        if isinstance(v, ast.Attribute) and isinstance(v.value, ast.Call) \
                and norm(v.value.func) == 're.compile' and v.value.args:
            ok, pv = model.fold(v.value.args[0], None, mu)
            if ok:
                pat, method = pv, v.attr
            for fnode in v.value.args[1:2] + [
                    k.value for k in v.value.keywords if k.arg == 'flags']:
                for x in ast.walk(fnode):
                    if isinstance(x, ast.Attribute) and \
                            hasattr(re, x.attr) and x.attr.isupper():
                        flags |= int(getattr(re, x.attr))
    if pat is None:
        what = norm(vals[0]) if vals else (
            'def simple_name' if fn is not None else None)
        if what is None:
            raise AnalysisError('DT_Util.simple_name not found')
        r.instance('DT_Util:simple_name', what, 'NOT A REGULAR EXPRESSION')
        r.finding('DT_Util:simple_name', what, 'the simple-name test is '
                  'not the anchored regular expression of the grammar '
                  '(str.isidentifier and similar also accept a leading '
                  'underscore and non-ASCII letters and digits): invalid '
                  'prefixes compile silently',
                  node=vals[0] if vals else fn.node, ctx=mu)
    else:
        core = pat
        anchored_end = core.endswith('$') or core.endswith(r'\Z')
        for a in ('^', r'\A'):
            if core.startswith(a):
                core = core[len(a):]
        for a in ('$', r'\Z'):
            if core.endswith(a):
                core = core[:-len(a)]
        try:
            inc, wit = regexa.included(core, PREFIX_REFERENCE, flags, 0)
            inc2, wit2 = regexa.included(PREFIX_REFERENCE, core, 0, flags)
        except regexa.Unsupported as e:
            raise AnalysisError(f'C06.R7: {e}')
        r.instance('DT_Util:simple_name', repr(pat),
                   'language = reference' if inc and inc2 else
                   f'differs: {wit!r} / {wit2!r}')
        if not inc:
            r.finding('DT_Util:simple_name', repr(pat), f'the simple-name '
                      f'pattern also accepts {wit!r}: an invalid prefix '
                      'compiles instead of being rejected', node=vals[0],
                      ctx=mu)
        if not inc2:
            r.finding('DT_Util:simple_name', repr(pat), f'the simple-name '
                      f'pattern rejects the valid prefix {wit2!r}',
                      node=vals[0], ctx=mu)
        if method != 'match' or not anchored_end:
            r.finding('DT_Util:simple_name', repr(pat), 'the pattern is '
                      'not anchored at both ends (.match with a trailing '
                      '$): names with a valid beginning only are accepted',
                      node=vals[0], ctx=mu)
    # users: `if prefix and not simple_name(prefix): raise ParseError`
    n_use = 0
    for fi in model.all_funcs():
        for n in own_nodes(fi.node):
            if isinstance(n, ast.If) and any(
                    isinstance(c, ast.Call) and isinstance(c.func, ast.Name)
                    and c.func.id == 'simple_name' for c in ast.walk(n.test)):
                n_use += 1
                raises = [x for x in n.body if isinstance(x, ast.Raise)]
                neg = any(isinstance(u, ast.UnaryOp) and
                          isinstance(u.op, ast.Not) and any(
                              isinstance(c, ast.Call) and
                              isinstance(c.func, ast.Name) and
                              c.func.id == 'simple_name'
                              for c in ast.walk(u))
                          for u in ast.walk(n.test))
                ok = bool(raises) and neg and \
                    _exc_name(raises[0]) == 'ParseError'
                r.instance(fi.where, f'if {norm(n.test)}', 'rejects' if ok
                           else 'DOES NOT REJECT')
                if not ok:
                    r.finding(fi.where, f'if {norm(n.test)}', 'a non-simple '
                              'prefix is not rejected with ParseError here',
                              node=n, ctx=fi)
    if n_use < 2:
        raise AnalysisError(f'C06.R7: only {n_use} prefix checks found')
    return r


def rule_block_context(model):
    r = RuleResult('C06.R8', 'while a block is scanned, continuation and '
                   'end tags are classified against the block\'s OPENING '
                   'tag: the command and the start-tag arguments handed to '
                   'the tag classifier are not re-assigned inside the '
                   'scanning loop')
    S = model.cls('DT_String', 'String')
    n = 0
    for name in ('parse_block', 'parse_close'):
        fi = S.methods.get(name)
        if fi is None:
            raise AnalysisError(f'String.{name} vanished')
        for lp in own_nodes(fi.node):
            if not isinstance(lp, (ast.While, ast.For)):
                continue
            assigned = set()
            for x in ast.walk(lp):
                if isinstance(x, ast.Name) and isinstance(x.ctx, ast.Store):
                    assigned.add(x.id)
            for c in ast.walk(lp):
                if not (isinstance(c, ast.Call) and
                        isinstance(c.func, ast.Attribute) and
                        norm(c.func.value) == 'self'):
                    continue
                ctx_args = None
                if c.func.attr in ('_parseTag', 'parseTag') and \
                        len(c.args) >= 2:
                    ctx_args = c.args[1:3]
                else:
                    # a wrapper method that forwards its parameters to the
                    # classifier: map the forwarded ones back to this call
                    w = S.methods.get(c.func.attr)
                    if w is not None and not any(
                            isinstance(x, (ast.While, ast.For))
                            for x in own_nodes(w.node)):
                        wps = w.params()[1:]
                        for ic in own_nodes(w.node):
                            if isinstance(ic, ast.Call) and \
                                    isinstance(ic.func, ast.Attribute) and \
                                    ic.func.attr in ('_parseTag',
                                                     'parseTag') and \
                                    len(ic.args) >= 2:
                                ctx_args = []
                                for a in ic.args[1:3]:
                                    if isinstance(a, ast.Name) and \
                                            a.id in wps and \
                                            wps.index(a.id) < len(c.args):
                                        ctx_args.append(
                                            c.args[wps.index(a.id)])
                if ctx_args:
                    n += 1
                    bad = [a for a in ctx_args for x in ast.walk(a)
                           if isinstance(x, ast.Name) and x.id in assigned]
                    r.instance(fi.where, c, 'opening-tag context' if not bad
                               else 'LOOP-VARIANT CONTEXT')
                    for a in bad:
                        r.finding(fi.where, c, f'`{norm(a)}` is re-assigned '
                                  'inside the scanning loop (at each '
                                  'continuation tag): a later continuation '
                                  'such as <dtml-else name> is compared '
                                  'with the previous continuation\'s '
                                  'arguments, taken for a new block, and a '
                                  'valid template is rejected', node=c,
                                  ctx=fi)
    if n < 2:
        raise AnalysisError(f'C06.R8: only {n} classifier calls in '
                            'scanning loops')
    r.floor = 2
    return r


def rule_tag_resolution(model):
    r = RuleResult('C06.R9', 'the parser classifies tags only through '
                   '_parseTag, which resolves a lazily registered command '
                   '(module, class) to its class first: a raw parseTag '
                   'result for a tag not used before has no block '
                   'attributes, and a valid nested block is then rejected '
                   'with an "unexpected end tag" ParseError depending on '
                   'what was compiled earlier in the process')
    S = model.cls('DT_String', 'String')
    wrapper = S.methods.get('_parseTag')
    if wrapper is None:
        raise AnalysisError('String._parseTag not found')
    # it replaces a tuple-valued registry entry by what the entry names:
    # the returned command is re-bound under the test that it is a tuple
    resolves = False
    for n in own_nodes(wrapper.node):
        if isinstance(n, ast.If) and ('tuple' in norm(n.test) or
                                      'type(' in norm(n.test)):
            if any(isinstance(x, ast.Assign) and any(
                    isinstance(t, ast.Name) for t in x.targets)
                    for x in ast.walk(n)) and any(
                    isinstance(x, ast.Call) and norm(x.func) in (
                        'exec', '__import__', 'importlib.import_module',
                        'import_module', 'getattr')
                    for x in ast.walk(n)):
                resolves = True
    r.instance(wrapper.where, 'lazy command resolution',
               'present' if resolves else 'MISSING')
    if not resolves:
        r.finding(wrapper.where, 'lazy import', '_parseTag no longer '
                  'resolves lazily registered commands', node=wrapper.node,
                  ctx=wrapper)
    for fi in compile_funcs(model):
        for n in own_nodes(fi.node):
            if isinstance(n, ast.Call) and isinstance(
                    n.func, ast.Attribute) and n.func.attr in (
                        'parseTag', '_parseTag') and isinstance(
                        n.func.value, ast.Name) and \
                    n.func.value.id == 'self':
                raw = n.func.attr == 'parseTag'
                ok = not raw or fi is wrapper or (
                    fi.name == 'parseTag')     # an override calling super
                r.instance(fi.where, n, 'raw reader' if raw
                           else 'resolving wrapper')
                if not ok:
                    r.finding(fi.where, n, 'the tag is classified with the '
                              'raw reader: a lazily registered block tag '
                              'that was not used before is not recognised '
                              'as a block (valid nested blocks raise '
                              '"unexpected end tag" depending on the '
                              'compile history)', node=n, ctx=fi)
    r.require_floor(3)
    return r


def rule_single_descent(model):
    r = RuleResult('C06.R12', 'compiling is polynomial in the nesting '
                   'depth: in a mutually recursive group of the compiler '
                   'each function has a single call site that leads back '
                   'into the group (the routine that skips a nested block '
                   'while its parent looks for its end tag does not compile '
                   'it: two descents per level double the work at every '
                   'level)')
    cg = _cg(model)
    comp = model._dt_compile
    n = 0
    for c in cg.sccs(comp):
        if len(c) < 2:
            continue
        group = set(c)
        for w in c:
            fi = cg.funcs[w]
            sites = []
            for x in own_nodes(fi.node):
                if not isinstance(x, ast.Call):
                    continue
                tg = set()
                for t in model.resolve_callee(x.func, fi):
                    if t[0] == 'func':
                        tg.add(t[1].where)
                    elif t[0] == 'method':
                        c2 = [g for g in model.all_funcs()
                              if g.cls is not None and g.name == t[1]
                              and g.parent is None]
                        if len(c2) == 1:
                            tg.add(c2[0].where)
                if any(group & cg.reachable([y]) for y in tg):
                    sites.append(x)
            n += 1
            r.instance(w, ' ; '.join(norm(x.func) for x in sites),
                       f'{len(sites)} descent(s)')
            if len(sites) > 1:
                r.finding(w, 'descents: ' + ' ; '.join(
                    sorted(norm(x.func) for x in sites)),
                    f'{len(sites)} call sites of {w} lead back into the '
                    f'recursive group {sorted(group)}: a nested block is '
                    'worked through more than once per level, the cost '
                    'doubles with every nesting level (a 30-deep nesting '
                    'does not finish)', node=sites[1], ctx=fi)
    if n < 2:
        raise AnalysisError('C06.R12: the mutually recursive parser group '
                            '(parse / parse_block) was not found')
    return r


# --------------------------------------------------------------- R13
class _BS(BaseState):
    """Sections of a block tag: which of first / middle / last were
    compiled, what is known about their number."""

    def __init__(self):
        self.env = {}              # local -> 'ALL' | 'REST' | 'MID' |
        #                            'LASTIDX' | 'LEN'
        self.lo, self.hi = 1, None
        self.used = frozenset()    # subset of F, M, L
        self.deleted = False
        self.dropped = False

    def key(self):
        return (tuple(sorted(self.env.items())), self.lo, self.hi,
                self.used, self.deleted, self.dropped)

    def copy(self):
        n = _BS()
        n.env = dict(self.env)
        n.lo, n.hi, n.used = self.lo, self.hi, self.used
        n.deleted, n.dropped = self.deleted, self.dropped
        n.trace = self.trace
        return n


class _SectionsDomain(Domain):
    def __init__(self, blocks):
        self.blocks = blocks

    # ---- abstract values
    def lst(self, e, st):
        """'ALL' / 'REST' / 'MID' for an expression denoting (part of) the
        section list, else None."""
        if isinstance(e, ast.Name):
            if e.id == self.blocks:
                return 'ALL'
            v = st.env.get(e.id)
            return v if v in ('ALL', 'REST', 'MID') else None
        if isinstance(e, ast.Call) and isinstance(e.func, ast.Name) and \
                e.func.id in ('enumerate', 'iter', 'list', 'tuple') and \
                e.args:
            return self.lst(e.args[0], st)
        if isinstance(e, ast.Subscript) and isinstance(e.slice, ast.Slice) \
                and self.lst(e.value, st) == 'ALL' and e.slice.step is None:
            lo, up = e.slice.lower, e.slice.upper
            lo_v = 0 if lo is None else (
                lo.value if isinstance(lo, ast.Constant) else None)
            if lo_v == 0 and up is None:
                return 'ALL'
            if lo_v == 1 and up is None:
                return 'REST'
            if lo_v == 1 and self.idx(up, st) == 'LAST':
                return 'MID'
        return None

    def idx(self, e, st):
        """0 / 1 / 'LAST' / None for an index expression."""
        if isinstance(e, ast.Constant) and isinstance(e.value, int):
            return {0: 0, 1: 1, -1: 'LAST'}.get(e.value)
        if isinstance(e, ast.UnaryOp) and isinstance(e.op, ast.USub) and \
                isinstance(e.operand, ast.Constant) and e.operand.value == 1:
            return 'LAST'
        if isinstance(e, ast.Name) and st.env.get(e.id) == 'LASTIDX':
            return 'LAST'
        if isinstance(e, ast.BinOp) and isinstance(e.op, ast.Sub) and \
                self.length(e.left, st) == 'ALL' and isinstance(
                    e.right, ast.Constant) and e.right.value == 1:
            return 'LAST'
        return None

    def length(self, e, st):
        if isinstance(e, ast.Call) and isinstance(e.func, ast.Name) and \
                e.func.id == 'len' and len(e.args) == 1:
            return self.lst(e.args[0], st)
        if isinstance(e, ast.Name) and st.env.get(e.id) in ('LEN',
                                                            'LENREST'):
            return 'ALL' if st.env[e.id] == 'LEN' else 'REST'
        return None

    # ---- consumption
    def use(self, st, what):
        what = set(what)
        if st.hi == 1:
            what = {'F', 'M', 'L'} if what & {'F', 'L'} else what
        if not what <= st.used:
            st = st.copy()
            st.used = st.used | frozenset(what)
        return st

    def element(self, lst, ix, st):
        """Section classes an element read stands for."""
        if lst == 'ALL':
            if ix == 0:
                return {'F'}
            if ix == 'LAST':
                return {'L'}
            if ix == 1 and st.lo == st.hi == 2:
                return {'L'}
        if lst == 'REST':
            if ix == 'LAST':
                return {'L'}
            if ix == 0 and st.lo == st.hi == 2:
                return {'L'}
        return set()

    def scan(self, node, st):
        for x in ast.walk(node):
            if isinstance(x, ast.Subscript) and isinstance(
                    x.ctx, ast.Load) and not isinstance(x.slice, ast.Slice):
                l_ = self.lst(x.value, st)
                if l_ is None:
                    continue
                par = getattr(x, '_dt_parent', None)
                if isinstance(par, ast.Subscript) and par.value is x and \
                        isinstance(par.slice, ast.Constant) and \
                        par.slice.value in (0, 1):
                    continue          # a look at the tag name / arguments
                st = self.use(st, self.element(l_, self.idx(x.slice, st),
                                               st))
            elif isinstance(x, ast.comprehension):
                st = self.iterate(x.iter, st)
        return st

    def iterate(self, it, st):
        l_ = self.lst(it, st)
        if l_ == 'ALL':
            return self.use(st, {'F', 'M'} | (set() if st.deleted
                                               else {'L'}))
        if l_ == 'REST':
            return self.use(st, {'M'} | (set() if st.deleted else {'L'}))
        if l_ == 'MID':
            return self.use(st, {'M'})
        return st

    # ---- hooks
    def raises(self, node, st):
        return []

    def loop_head(self, node, st):
        if isinstance(node, ast.For):
            return self.iterate(node.iter, st)
        return st

    def effects(self, stmt, st):
        st = self.scan(stmt, st)
        if isinstance(stmt, ast.Delete):
            for t in stmt.targets:
                if isinstance(t, ast.Subscript) and \
                        self.lst(t.value, st) == 'ALL' and \
                        self.idx(t.slice, st) == 'LAST':
                    st = st.copy()
                    if 'L' not in st.used:
                        st.dropped = True
                    st.deleted = True
        if isinstance(stmt, ast.Assign) and len(stmt.targets) == 1:
            t, v = stmt.targets[0], stmt.value
            if isinstance(t, ast.Name):
                st = st.copy()
                st.env.pop(t.id, None)
                l_ = self.lst(v, st)
                if l_ is not None and not (isinstance(v, ast.Subscript) and
                                           not isinstance(v.slice,
                                                          ast.Slice)):
                    st.env[t.id] = l_
                elif self.idx(v, st) == 'LAST' and not isinstance(
                        v, (ast.Constant, ast.UnaryOp)):
                    st.env[t.id] = 'LASTIDX'
                elif self.length(v, st) == 'ALL':
                    st.env[t.id] = 'LEN'
                elif self.length(v, st) == 'REST':
                    st.env[t.id] = 'LENREST'
            elif isinstance(t, (ast.Tuple, ast.List)) and \
                    self.lst(v, st) == 'ALL' and any(
                        isinstance(e, ast.Starred) for e in t.elts):
                # first, *rest = blocks
                st = self.use(st, {'F'}) if not isinstance(
                    t.elts[0], ast.Starred) else st
                st = st.copy()
                for i, e in enumerate(t.elts):
                    if isinstance(e, ast.Starred) and isinstance(
                            e.value, ast.Name) and i == 1 and \
                            len(t.elts) == 2:
                        st.env[e.value.id] = 'REST'
        return st

    def on_return(self, node, st):
        if node.value is not None:
            st = self.scan(node.value, st)
        return [], st

    def _narrow(self, st, lo, hi):
        lo = max(st.lo, lo)
        hi = st.hi if hi is None else (hi if st.hi is None
                                       else min(st.hi, hi))
        if hi is not None and lo > hi:
            return None
        n = st.copy()
        n.lo, n.hi = lo, hi
        if hi == 1 and n.used & {'F', 'L'}:
            n.used = frozenset('FML')
        return n

    def branch(self, test, st):
        st = self.scan(test, st)
        # truth of the list itself / of its rest
        l_ = self.lst(test, st) if isinstance(test, ast.Name) else None
        off = {'ALL': 0, 'REST': 1}.get(l_)
        if off is not None:
            t, f = self._narrow(st, 1 + off, None), \
                self._narrow(st, 1, off)
            return [(b, s) for b, s in ((True, t), (False, f))
                    if s is not None]
        if isinstance(test, ast.Compare) and len(test.ops) == 1:
            a, b, op = test.left, test.comparators[0], test.ops[0]
            la, lb = self.length(a, st), self.length(b, st)
            if (la is None) != (lb is None):
                k = b if la is not None else a
                if isinstance(k, ast.Constant) and isinstance(k.value, int):
                    which = la or lb
                    off = {'ALL': 0, 'REST': 1}.get(which)
                    if off is not None:
                        if la is None:
                            op = {ast.Lt: ast.Gt, ast.Gt: ast.Lt,
                                  ast.LtE: ast.GtE, ast.GtE: ast.LtE}.get(
                                      type(op), type(op))()
                        k = k.value + off       # in terms of all sections
                        rng = {
                            ast.Eq: ((k, k), None),
                            ast.NotEq: (None, (k, k)),
                            ast.Gt: ((k + 1, None), (1, k)),
                            ast.GtE: ((k, None), (1, k - 1)),
                            ast.Lt: ((1, k - 1), (k, None)),
                            ast.LtE: ((1, k), (k + 1, None)),
                        }.get(type(op))
                        if rng is not None:
                            out = []
                            for bval, rg in ((True, rng[0]),
                                             (False, rng[1])):
                                if rg is None:
                                    out.append((bval, st))
                                    continue
                                n = self._narrow(st, max(rg[0], 1), rg[1])
                                if n is not None:
                                    out.append((bval, n))
                            return out
        return [(True, st), (False, st)]


def rule_sections_consumed(model):
    r = RuleResult('C06.R13', 'a block tag compiles or rejects every '
                   'section the parser collected for it (the opening '
                   'section and each continuation): on no path through its '
                   'constructor that returns normally is a section left '
                   'unread -- a continuation that is silently dropped is '
                   'malformed or meaningful source accepted without a '
                   'ParseError and never rendered')
    mi = model.inlined_view()
    n = 0
    for ci in mi.all_classes():
        bc = ci.attrs.get('blockContinuations')
        if bc is None:
            continue
        ok, val = mi.fold(bc, None, ci.module)
        if not ok or not val:
            continue
        init = ci.methods.get('__init__')
        if init is None and '__call__' in ci.methods:
            # a factory object registered as the command: the class it
            # instantiates with the sections
            fc = ci.methods['__call__']
            fp = fc.params()[1] if len(fc.params()) > 1 else None
            for c in own_nodes(fc.node):
                if isinstance(c, ast.Call) and c.args and isinstance(
                        c.args[0], ast.Name) and c.args[0].id == fp:
                    for t in mi.resolve_callee(c.func, fc):
                        if t[0] == 'class' and '__init__' in t[1].methods:
                            init = t[1].methods['__init__']
        if init is None or len(init.params()) < 2:
            continue
        blocks = init.params()[1]
        dom = _SectionsDomain(blocks)
        it = Interp(dom, max_states=60000)
        outs = it.run(init.node, _BS())
        if it.overflow:
            raise AnalysisError(f'C06.R13: state budget in {init.where}')
        ends = [o for o in outs if o.kind in ('normal', 'return')]
        bad = []
        for o in ends:
            s_ = o.state
            missing = []
            if 'F' not in s_.used:
                missing.append('the opening section')
            if 'M' not in s_.used and not (s_.hi is not None and s_.hi <= 2):
                missing.append('the continuations between the first and '
                               'the last')
            if 'L' not in s_.used and not s_.hi == 1:
                missing.append('the last continuation')
            if s_.dropped:
                missing.append('a continuation deleted before it was read')
            if missing:
                bad.append((o, missing))
        n += 1
        r.instance(init.where, f'{ci.name}({blocks})',
                   f'{len(ends)} normal exit(s), {len(bad)} leaving a '
                   'section unread', continuations=list(val))
        seen = set()
        for o, missing in bad:
            key = tuple(missing)
            if key in seen:
                continue
            seen.add(key)
            r.finding(init.where, f'{ci.name}: ' + '; '.join(missing),
                      f'a path through the constructor of dtml-{ci.name.lower()} '
                      'returns without having compiled or rejected '
                      + ' and '.join(missing) + ': what the author wrote '
                      'there is accepted and silently never rendered',
                      node=init.node, ctx=init, path=o.state.trace)
    if n < 3:
        raise AnalysisError(f'C06.R13: only {n} block tags with '
                            'continuations found (expected if, in, try)')
    r.floor = 3
    return r


def rule_contiguous_params(model):
    r = RuleResult('C06.R14', 'the attribute parsers consume the attribute '
                   'text from the left without gaps: their patterns are '
                   'applied with match() at the current position, never '
                   'with search / finditer / findall / split (which step '
                   'over text that is no attribute -- malformed attributes '
                   'would be accepted silently instead of raising '
                   'ParseError)')
    n = 0
    for mod, name in (('DT_Util', 'parse_params'),
                      ('DT_Let', 'parse_let_params')):
        top = model.func(mod, name)
        for f in model.closure(top):
            # names bound to compiled patterns or their bound methods:
            # parameter defaults, module-level names, locals
            for c in own_nodes(f.node):
                if not (isinstance(c, ast.Call) and isinstance(
                        c.func, ast.Attribute)):
                    continue
                a = c.func.attr
                if a not in ('match', 'fullmatch', 'search', 'finditer',
                             'findall', 'split', 'sub', 'subn'):
                    continue
                recv = c.func.value
                # string methods of the text itself (text.split()) are not
                # pattern applications
                is_pat = False
                if isinstance(recv, ast.Name):
                    d = model.param_default(f, recv.id)
                    if isinstance(d, ast.Name):
                        # parmre=_PARM_RE: a module-level pattern
                        g = model.resolve_global(f.module, d.id)
                        if g and g[0] == 'value' and g[1]:
                            d = list(g[1])[0]
                    defs = [d] if d is not None else [
                        x for x in model.local_defs(f, recv.id)
                        if isinstance(x, ast.AST)]
                    if not defs:
                        g = model.resolve_global(f.module, recv.id)
                        defs = list(g[1]) if g and g[0] == 'value' else []
                    is_pat = any(isinstance(x, ast.Call) and
                                 norm(x.func).endswith('compile')
                                 for x in defs)
                elif isinstance(recv, ast.Call) and \
                        norm(recv.func).endswith('compile'):
                    is_pat = True
                elif norm(recv) == 're':
                    is_pat = True
                if not is_pat:
                    continue
                n += 1
                ok = a in ('match', 'fullmatch')
                r.instance(f.where, c, 'anchored at the cursor' if ok
                           else 'STEPS OVER TEXT')
                if not ok:
                    r.finding(f.where, c, f'the attribute text is scanned '
                              f'with {a}(): whatever stands between two '
                              'recognised attributes is skipped, so '
                              'malformed or unsupported attributes are '
                              'accepted silently', node=c, ctx=f)
    if n < 2:
        raise AnalysisError(f'C06.R14: only {n} pattern applications found '
                            'in the attribute parsers')
    r.floor = 2
    return r


def _needs_registry(rule):
    """Everything except R6 depends on a resolvable tag registry."""
    def run(model):
        cg = _cg(model)
        if cg.registry.problems:
            raise AnalysisError(f'{rule.__name__}: the tag registry does '
                                'not resolve (see C06.R6)')
        return rule(model)
    run.__name__ = rule.__name__
    return run


RULES = [rule_registry] + [_needs_registry(r_) for r_ in (
    rule_regex, rule_raise, rule_partial, rule_location, rule_recursion,
    rule_prefix_grammar, rule_block_context, rule_tag_resolution,
    rule_single_descent)] + [rule_sections_consumed, rule_contiguous_params]
EXPLANATION = (
    'Regex automata (EDA criterion on the self-product of the pattern NFA) '
    'for every constant pattern of the compile phase; raise/handler '
    'discipline queries over the compile-phase call graph; dominance of '
    'membership tests over parameter-dict subscripts (path-sensitive); '
    'origin pairing of (tag, offset) at every located error; call-graph '
    'cycles; registry resolution.')
ASSUMPTIONS = [
    'compile phase = functions reachable from String.cook and from the '
    'constructors in the tag registry (resolved call graph)',
    'Python re is a backtracking matcher: exponential ambiguity of the NFA '
    '<=> exponential worst case',
    'does not decide "rejected iff the grammar is violated" nor loop '
    'progress of the scanner',
]
TRUSTED = ['re._parser of the running interpreter', 'python ast']
