"""C08 -- namespace stack and recursion level restored on every exit path.

R1 balance: for every function that pushes on a namespace it did not create,
   the push/pop depth is 0 at every exit (return, fall-through, explicit
   raise, propagated exception) of the structured CFG with exceptional edges.
R2 level: after ``ns.level = <something else>`` every exit passes
   ``ns.level = <saved entry value>``.
R3 ownership: ``._data`` of the namespace is touched only by its own class;
   no ``finally`` in namespace-pushing code contains return/break/continue.
"""
import ast

from ..core import AnalysisError
from ..core import RuleResult
from ..core import norm
from ..model import ancestors
from ..flow import ANY
from ..flow import NORMAL
from ..flow import RAISE
from ..flow import RETURN
from ..flow import BaseState
from ..flow import Domain
from ..flow import Interp
from ..flow import calls_in_order
from ..mayraise import RaiseModel
from ..model import own_nodes

CLAMP = 12


class S(BaseState):
    __slots__ = ('depth', 'rel', 'counter', 'cval', 'fresh', 'alias',
                 'consts', 'flags', 'lvl_saved', 'lvl_dirty', 'lvl_delta',
                 'trace',
                 'cur_exc')

    def __init__(self):
        self.depth = 0          # outstanding pushes on caller namespaces
        self.rel = None         # depth - counter while a counter is live
        self.counter = None     # name of the live counter variable
        self.cval = None        # its value when known
        self.fresh = frozenset()
        self.alias = {}         # name -> ('push'|'pop', is_fresh)
        self.consts = {}        # local -> constant
        self.flags = {}         # local -> truthiness decided on this path
        self.lvl_saved = frozenset()   # locals holding the entry level
        self.lvl_dirty = False
        self.lvl_delta = 0             # relative changes through helpers
        self.trace = ()
        self.cur_exc = None

    def key(self):
        return (self.depth, self.rel, self.counter, self.cval, self.fresh,
                tuple(sorted(self.alias.items())),
                tuple(sorted(self.consts.items(), key=repr)),
                tuple(sorted(self.flags.items())),
                self.lvl_saved, self.lvl_dirty, self.cur_exc,
                self.lvl_delta)

    def copy(self):
        n = S()
        n.depth, n.rel, n.counter, n.cval = \
            self.depth, self.rel, self.counter, self.cval
        n.fresh = self.fresh
        n.alias = dict(self.alias)
        n.consts = dict(self.consts)
        n.flags = dict(self.flags)
        n.lvl_saved, n.lvl_dirty = self.lvl_saved, self.lvl_dirty
        n.lvl_delta = self.lvl_delta
        n.trace = self.trace
        n.cur_exc = self.cur_exc
        return n


def _is_attr_call(call, attr):
    return isinstance(call.func, ast.Attribute) and call.func.attr == attr


class BalanceDomain(Domain):
    def __init__(self, model, fi, rm, counters, helpers=None,
                 flag_helpers=None):
        self.flag_helpers = flag_helpers or {}
        self.model = model
        self.fi = fi
        self.rm = rm
        self.counters = counters
        self.helpers = helpers or {}     # where -> net depth effect
        self.notes = []
        # truthiness correlation is only kept for locals tested more than
        # once (otherwise it only multiplies states)
        cnt = {}
        for n in own_nodes(fi.node):
            tests = []
            if isinstance(n, (ast.If, ast.While, ast.IfExp)):
                tests = [n.test]
            for t in tests:
                for e in ast.walk(t):
                    if isinstance(e, ast.Name):
                        cnt[e.id] = cnt.get(e.id, 0) + 1
        self.flaggable = {k for k, v in cnt.items() if v > 1}
        # `x is None` correlation: only locals compared with None in more
        # than one test
        cn = {}
        for n in own_nodes(fi.node):
            if isinstance(n, (ast.If, ast.While, ast.IfExp)):
                for e in ast.walk(n.test):
                    if isinstance(e, ast.Compare) and len(e.ops) == 1 and \
                            isinstance(e.ops[0], (ast.Is, ast.IsNot)) and \
                            isinstance(e.left, ast.Name) and isinstance(
                                e.comparators[0], ast.Constant) and \
                            e.comparators[0].value is None:
                        cn[e.left.id] = cn.get(e.left.id, 0) + 1
        # ... and bound once (a parameter, or a single assignment): a
        # re-assigned local would only multiply states
        self.none_flaggable = {
            k for k, v in cn.items() if v > 1 and
            len(model.local_defs(fi, k)) == 1}

    # ----------------------------------------------------------- helpers
    def flag_helper_call(self, stmt, st):
        """`name = helper(push, ...)` where the helper pushes through the
        callable it is handed and returns a constant telling whether it
        did: -> (name, [(returned constant, depth change), ...])."""
        if not self.flag_helpers or not isinstance(stmt, ast.Assign) or \
                len(stmt.targets) != 1 or \
                not isinstance(stmt.targets[0], ast.Name) or \
                not isinstance(stmt.value, ast.Call):
            return None
        call = stmt.value
        for t in self.model.resolve_callee(call.func, self.fi):
            if t[0] != 'func' or t[1].where not in self.flag_helpers:
                continue
            idx, summary = self.flag_helpers[t[1].where]
            off = 1 if (t[1].cls is not None and
                        isinstance(call.func, ast.Attribute)) else 0
            i = idx - off
            if not 0 <= i < len(call.args):
                return None
            a = call.args[i]
            kind = self.push_pop(ast.Call(func=a, args=[], keywords=[]), st)
            if kind is None or kind[0] != 'push':
                return None
            if kind[1]:       # pushes on a fresh namespace: no obligation
                summary = [(rv, 0) for rv, _ in summary]
            return stmt.targets[0].id, summary
        return None

    def simple(self, stmt, st):
        fh = self.flag_helper_call(stmt, st)
        if fh is None:
            return Domain.simple(self, stmt, st)
        from ..flow import Outcome
        name, summary = fh
        outs = [Outcome(RAISE, st, ANY, stmt)]
        for rv, k in summary:
            ns = st.copy()
            if ns.depth is not None:
                ns.depth += k
            if ns.rel is not None:
                ns.rel += k
            ns = self.assign(stmt.targets[0], ast.Constant(value=rv), ns,
                             stmt)
            outs.append(Outcome(NORMAL, ns))
        return outs

    def helper_effect(self, call):
        """Net stack effect of calling a repo helper that pushes / pops on
        the namespace it is given (consistent on all its normal exits)."""
        if not self.helpers:
            return 0
        k = getattr(call, '_dt_helper_k', None)
        if k is None:
            k = 0
            for t in self.model.resolve_callee(call.func, self.fi):
                if t[0] == 'func' and t[1].where in self.helpers and \
                        t[1] is not self.fi:
                    k = self.helpers[t[1].where]
            call._dt_helper_k = k
        return k

    def push_pop(self, call, st):
        """-> ('push'|'pop', fresh?) or None"""
        f = call.func
        if isinstance(f, ast.Attribute) and f.attr in ('_push', '_pop'):
            fresh = isinstance(f.value, ast.Name) and f.value.id in st.fresh
            return ('push' if f.attr == '_push' else 'pop', fresh)
        if isinstance(f, ast.Name) and f.id in st.alias:
            return st.alias[f.id]
        return None

    def is_ctor(self, value):
        if not isinstance(value, ast.Call):
            return False
        if isinstance(value.func, ast.Call) and \
                isinstance(value.func.func, ast.Name) and \
                value.func.func.id == 'type':
            return True
        for t in self.model.resolve_callee(value.func, self.fi):
            if t[0] == 'class' and t[1].name == 'TemplateDict':
                return True
        return False

    def raises(self, node, st):
        # arguments of push/pop calls are evaluated before the push
        if self._may_raise(node, st):
            return [ANY]
        return []

    def _may_raise(self, node, st):
        stack = [node]
        while stack:
            n = stack.pop()
            if isinstance(n, (ast.Lambda, ast.FunctionDef,
                              ast.AsyncFunctionDef, ast.ClassDef)):
                continue
            if isinstance(n, ast.Call):
                if self.push_pop(n, st) is None and \
                        self.level_helper(n) is None and \
                        not self.rm.call_benign(n, self.fi):
                    return True
            elif self.rm._ns_subscript(n):
                return True
            stack.extend(ast.iter_child_nodes(n))
        return False

    def const_of(self, e, st):
        if isinstance(e, ast.Constant):
            return True, e.value
        if isinstance(e, ast.Name):
            if e.id == st.counter and st.cval is not None:
                return True, st.cval
            if e.id in st.consts:
                return True, st.consts[e.id]
        return False, None

    # ----------------------------------------------------------- effects
    def level_helper(self, c):
        """Relative change of the recursion level by a namespace method
        (`md._enter()`): the net change of `self.level` the method makes on
        every path, None if it is not such a method."""
        if not (isinstance(c.func, ast.Attribute) and
                isinstance(c.func.value, ast.Name)):
            return None
        return level_helpers(self.model).get(c.func.attr)

    def apply_calls(self, node, st):
        lv = [c for c in calls_in_order(node)
              if self.level_helper(c) is not None]
        if lv:
            st = st.copy()
            for c in lv:
                if c.func.value.id not in st.fresh:
                    st.lvl_delta += self.level_helper(c)
        calls = [c for c in calls_in_order(node)
                 if self.push_pop(c, st) is not None or
                 self.helper_effect(c)]
        if not calls:
            return st
        st = st.copy()
        for c in calls:
            if self.push_pop(c, st) is None:
                k = self.helper_effect(c)
                # the helper works on the namespace argument it is given
                fresh = any(isinstance(a, ast.Name) and a.id in st.fresh
                            for a in c.args)
                if not fresh:
                    if st.depth is not None:
                        st.depth += k
                    if st.rel is not None:
                        st.rel += k
                continue
            kind, fresh = self.push_pop(c, st)
            if fresh:
                continue
            if kind == 'push':
                if st.depth is not None:
                    st.depth += 1
                if st.rel is not None:
                    st.rel += 1
            else:
                if not c.args:
                    k = 1
                else:
                    a = c.args[0]
                    if isinstance(a, ast.Name) and a.id == st.counter \
                            and st.rel is not None:
                        # pops exactly `counter` entries
                        st.depth = st.rel
                        st.rel = (st.rel - st.cval) if st.cval is not None \
                            else None
                        continue
                    ok, k = self.const_of(a, st)
                    if not ok or not isinstance(k, int):
                        self.notes.append(('pop of unknown count', c))
                        st.depth = None
                        st.rel = None
                        continue
                if st.depth is not None:
                    st.depth -= k
                if st.rel is not None:
                    st.rel -= k
        return st

    def effects(self, stmt, st):
        st = self.apply_calls(stmt, st)
        if isinstance(stmt, ast.Assign):
            for t in stmt.targets:
                st = self.assign(t, stmt.value, st, stmt)
        elif isinstance(stmt, ast.AnnAssign) and stmt.value is not None:
            st = self.assign(stmt.target, stmt.value, st, stmt)
        elif isinstance(stmt, ast.AugAssign):
            st = self.augassign(stmt, st)
        elif isinstance(stmt, ast.Expr):
            st = self.mutation(stmt.value, st)
        return st

    def mutation(self, e, st):
        # a mutating call / on a flagged local invalidates the flag
        if isinstance(e, ast.Call) and isinstance(e.func, ast.Attribute) \
                and isinstance(e.func.value, ast.Name) \
                and e.func.value.id in st.flags \
                and e.func.attr in ('append', 'clear', 'pop', 'update',
                                    'extend', 'remove', 'insert',
                                    'setdefault', 'popitem'):
            st = st.copy()
            del st.flags[e.func.value.id]
        return st

    def augassign(self, stmt, st):
        t = stmt.target
        if isinstance(t, ast.Name):
            st = st.copy()
            st.consts.pop(t.id, None)
            st.flags.pop(t.id, None)
            if t.id == st.counter:
                ok, k = self.const_of(stmt.value, st)
                if ok and isinstance(k, int) and \
                        isinstance(stmt.op, (ast.Add, ast.Sub)):
                    if isinstance(stmt.op, ast.Sub):
                        k = -k
                    if st.rel is not None:
                        st.rel -= k
                    if st.cval is not None:
                        st.cval += k
                else:
                    st.rel = None
                    st.cval = None
        return st

    def assign(self, t, value, st, stmt):
        if isinstance(t, ast.Attribute):
            # ns.level = ...
            if t.attr == 'level':
                st = st.copy()
                if isinstance(value, ast.Name) and value.id in st.lvl_saved:
                    st.lvl_dirty = False
                else:
                    fresh = isinstance(t.value, ast.Name) and \
                        t.value.id in st.fresh
                    if not fresh:
                        st.lvl_dirty = True
            return st
        if isinstance(t, ast.Subscript):
            if isinstance(t.value, ast.Name) and t.value.id in st.flags:
                st = st.copy()
                del st.flags[t.value.id]
            return st
        if isinstance(t, (ast.Tuple, ast.List)):
            st = st.copy()
            for e in ast.walk(t):
                if isinstance(e, ast.Name):
                    self._forget(e.id, st)
            return st
        if not isinstance(t, ast.Name):
            return st
        name = t.id
        st = st.copy()
        self._forget(name, st)
        # aliases of push / pop
        if isinstance(value, ast.Attribute) and value.attr in ('_push',
                                                               '_pop'):
            fresh = isinstance(value.value, ast.Name) and \
                value.value.id in st.fresh
            st.alias[name] = ('push' if value.attr == '_push' else 'pop',
                              fresh)
            return st
        # fresh namespaces
        if self.is_ctor(value):
            st.fresh = st.fresh | {name}
            return st
        if isinstance(value, ast.Name) and value.id in st.fresh:
            st.fresh = st.fresh | {name}
        # saved level
        if isinstance(value, ast.Attribute) and value.attr == 'level':
            st.lvl_saved = st.lvl_saved | {name}
        # counters
        if name in self.counters:
            ok, k = self.const_of(value, st) if not (
                isinstance(value, ast.Name) and value.id == name) \
                else (False, None)
            if isinstance(value, ast.Constant) and \
                    isinstance(value.value, int) and \
                    not isinstance(value.value, bool):
                st.counter = name
                st.cval = value.value
                st.rel = (st.depth - value.value) \
                    if st.depth is not None else None
            elif isinstance(value, ast.Constant):
                # e.g. None: counter not live
                if st.counter == name:
                    st.counter, st.cval, st.rel = None, None, None
                st.consts[name] = value.value
            elif isinstance(value, ast.BinOp) and \
                    isinstance(value.op, (ast.Add, ast.Sub)) and \
                    isinstance(value.left, ast.Name) and \
                    value.left.id == name and st.counter == name and \
                    isinstance(value.right, ast.Constant) and \
                    isinstance(value.right.value, int):
                k = value.right.value
                if isinstance(value.op, ast.Sub):
                    k = -k
                if st.rel is not None:
                    st.rel -= k
                if st.cval is not None:
                    st.cval += k
            else:
                if st.counter == name:
                    st.rel = None
                    st.cval = None
            return st
        ok, k = self.const_of(value, st)
        if ok and isinstance(value, (ast.Constant, ast.Name)):
            st.consts[name] = k
        return st

    def _forget(self, name, st):
        st.consts.pop(name, None)
        st.flags.pop(name, None)
        st.flags.pop(name + '#none', None)
        st.alias.pop(name, None)
        if name in st.fresh:
            st.fresh = st.fresh - {name}
        if name in st.lvl_saved:
            st.lvl_saved = st.lvl_saved - {name}

    def on_return(self, node, st):
        if node.value is None:
            return [], st
        return self.raises(node.value, st), self.apply_calls(node, st)

    # ---------------------------------------------------------- branches
    def branch(self, test, st):
        # a level helper called in the test (`if md._enter() > 200:`)
        lv = [c for c in calls_in_order(test)
              if self.level_helper(c) is not None and
              c.func.value.id not in st.fresh]
        if lv and not getattr(test, '_dt_lv_done', None) == id(st):
            st = st.copy()
            for c in lv:
                st.lvl_delta += self.level_helper(c)
        # constants
        ok, v = self.const_of(test, st)
        if ok and not (isinstance(test, ast.Name) and test.id == st.counter
                       and st.cval is None):
            return [(bool(v), st)]
        if isinstance(test, ast.Compare) and len(test.ops) == 1:
            op = test.ops[0]
            l, r = test.left, test.comparators[0]
            if isinstance(op, (ast.Is, ast.IsNot)):
                okl, lv = self.const_of(l, st)
                okr, rv = self.const_of(r, st)
                if okl and okr:
                    res = lv is rv
                    return [(res if isinstance(op, ast.Is) else not res, st)]
                # live counter is an int, never None
                if isinstance(l, ast.Name) and l.id == st.counter and \
                        okr and rv is None:
                    return [(isinstance(op, ast.IsNot), st)]
                # `x is None` on an unmodified local tested more than
                # once: the answer is the same at every test
                if isinstance(l, ast.Name) and okr and rv is None and \
                        l.id in self.none_flaggable and \
                        l.id != st.counter:
                    key = l.id + '#none'
                    pos = isinstance(op, ast.Is)
                    if key in st.flags:
                        return [(st.flags[key] == pos, st)]
                    t = st.copy()
                    t.flags[key] = pos
                    f = st.copy()
                    f.flags[key] = not pos
                    return [(True, t), (False, f)]
            if isinstance(op, (ast.Eq, ast.NotEq)):
                okl, lv = self.const_of(l, st)
                okr, rv = self.const_of(r, st)
                if okl and okr and lv is not None and rv is not None:
                    res = lv == rv
                    return [(res if isinstance(op, ast.Eq) else not res, st)]
        if isinstance(test, ast.Name):
            name = test.id
            if name == st.counter:
                # unknown value: fork; false branch knows counter == 0
                t = st
                f = st.copy()
                f.cval = 0
                if f.rel is not None:
                    f.depth = f.rel
                return [(True, t), (False, f)]
            if name in st.flags:
                return [(st.flags[name], st)]
            if name not in self.flaggable:
                return [(True, st), (False, st)]
            t = st.copy()
            t.flags[name] = True
            f = st.copy()
            f.flags[name] = False
            return [(True, t), (False, f)]
        return [(True, st), (False, st)]

    def loop_head(self, node, st):
        names = getattr(node, '_dt_assigned', None)
        if names is None:
            names = set()
            for n in ast.walk(node):
                if isinstance(n, ast.Name) and isinstance(n.ctx, ast.Store):
                    names.add(n.id)
            node._dt_assigned = names
        if any(n in st.consts or n in st.flags or n + '#none' in st.flags
               for n in names):
            st = st.copy()
            for n in names:
                st.consts.pop(n, None)
                st.flags.pop(n, None)
                st.flags.pop(n + '#none', None)
        return st

    def for_target(self, node, st):
        st = st.copy()
        for e in ast.walk(node.target):
            if isinstance(e, ast.Name):
                self._forget(e.id, st)
        return st

    def enter_handler(self, h, st, exc):
        if h.name:
            st = st.copy()
            self._forget(h.name, st)
        return st

    def widen(self, st, head):
        """Counted loops: depth and counter grow in lock-step while
        depth - counter stays constant: forget both, keep the relation.
        A counter that runs free of the depth (pushes on a fresh namespace)
        loses its relation instead."""
        def masked(x):
            return x.key()[4:]
        if st.counter is not None:
            mk = masked(st)
            for h in head.values():
                if masked(h) != mk or h.counter != st.counter:
                    continue
                if (h.depth, h.rel, h.cval) == (st.depth, st.rel, st.cval):
                    continue
                a = st.copy()
                if h.rel == st.rel and st.rel is not None:
                    a.depth = None
                    a.cval = None
                elif h.depth == st.depth:
                    a.rel = None
                    a.cval = None
                else:
                    a.depth = a.rel = a.cval = None
                return a
        if st.depth is not None and abs(st.depth) > CLAMP:
            self.notes.append(('loop body is not depth-neutral', None))
            return None
        return st


def pushing_functions(model):
    out = []
    for fi in model.all_funcs():
        if getattr(fi, 'cm_method', False):
            # __enter__/__exit__ of a context manager that normalise.N1
            # rewrote to try/finally at every use: judged there
            continue
        has = False
        counters = set()
        for n in own_nodes(fi.node):
            if isinstance(n, ast.Call):
                if _is_attr_call(n, '_push'):
                    has = True
                elif isinstance(n.func, ast.Name):
                    for d in model.local_defs(fi, n.func.id):
                        if isinstance(d, ast.Attribute) and \
                                d.attr == '_push':
                            has = True
        if not has:
            continue
        for n in own_nodes(fi.node):
            if isinstance(n, ast.Call) and n.args and \
                    isinstance(n.args[0], ast.Name):
                f = n.func
                is_pop = _is_attr_call(n, '_pop')
                if isinstance(f, ast.Name):
                    for d in model.local_defs(fi, f.id):
                        if isinstance(d, ast.Attribute) and d.attr == '_pop':
                            is_pop = True
                if is_pop:
                    counters.add(n.args[0].id)
        out.append((fi, counters))
    return out


def level_helpers(model):
    """Methods of the namespace class that change `self.level` by a
    constant on every path: name -> net change."""
    cached = getattr(model, '_dt_level_helpers', None)
    if cached is not None:
        return cached
    out = {}
    m_ = model.modules.get('_DocumentTemplate')
    ci = m_.classes.get('TemplateDict') if m_ is not None else None
    for name, fi in (ci.methods.items() if ci else ()):
        if name.startswith('__'):
            continue
        stores = [n for n in own_nodes(fi.node)
                  if isinstance(n, (ast.Assign, ast.AugAssign)) and any(
                      norm(t) == 'self.level' for t in (
                          n.targets if isinstance(n, ast.Assign)
                          else [n.target]))]
        if len(stores) != 1:
            continue
        st_ = stores[0]
        k = None
        if isinstance(st_, ast.AugAssign) and isinstance(
                st_.value, ast.Constant) and isinstance(
                    st_.value.value, int):
            k = st_.value.value if isinstance(st_.op, ast.Add) else (
                -st_.value.value if isinstance(st_.op, ast.Sub) else None)
        elif isinstance(st_, ast.Assign) and isinstance(
                st_.value, ast.BinOp) and isinstance(
                    st_.value.right, ast.Constant) and isinstance(
                    st_.value.right.value, int):
            base = st_.value.left
            is_level = norm(base) == 'self.level' or (
                isinstance(base, ast.Name) and any(
                    isinstance(d, ast.AST) and norm(d) == 'self.level'
                    for d in model.local_defs(fi, base.id)))
            if is_level:
                k = st_.value.right.value if isinstance(
                    st_.value.op, ast.Add) else (
                    -st_.value.right.value if isinstance(
                        st_.value.op, ast.Sub) else None)
        if k:
            out[name] = k
    model._dt_level_helpers = out
    return out


def analyse_function(model, fi, counters, rm, helpers=None,
                     flag_helpers=None, init=None):
    dom = BalanceDomain(model, fi, rm, counters, helpers, flag_helpers)
    it = Interp(dom)
    outs = it.run(fi.node, init or S())
    if it.overflow:
        raise AnalysisError(f'C08: state budget exceeded in {fi.where}')
    return dom, outs


def rule_balance(model):
    try:
        return _rule_balance(model)
    except AnalysisError as e:
        if 'state budget exceeded' not in str(e) or not model.inline:
            raise
    # the view with new helpers inlined has too many paths through one
    # function (a helper inlined at several call sites multiplies them):
    # judge the sources as written instead -- a helper that pushes is then
    # a function of its own with the same obligation
    res = _rule_balance(model.plain_view())
    res[0].stats['view'] = 'as written (inlined view exceeded the state ' \
        'budget)'
    return res


def _rule_balance(model):
    r1 = RuleResult('C08.R1', 'push/pop depth on caller-provided namespaces '
                    'is 0 at every normal and exceptional exit')
    r2 = RuleResult('C08.R2', 'a modified recursion level is restored on '
                    'every exit')
    rm = RaiseModel(model)
    funcs = pushing_functions(model)
    # helpers with a consistent net effect (a function that only pushes,
    # or only pops, for its caller): summarised and accounted for at the
    # call sites instead of being judged on their own
    helpers = {}
    fhelp = flag_helper_summaries(model, funcs, rm)
    for w, (i, pairs) in sorted(fhelp.items()):
        r1.instance(w, 'def ' + w.split('.')[-1].split(':')[-1],
                    'helper pushing through the callable it is given; '
                    f'(returned value, depth change) = {pairs} (accounted '
                    'for at its call sites)')
    for _ in range(2):
        for fi, counters in funcs:
            dom, outs = analyse_function(model, fi, counters, rm, helpers,
                                         fhelp)
            normal = {o.state.depth for o in outs
                      if o.kind in (NORMAL, RETURN)}
            exc = {o.state.depth for o in outs if o.kind == RAISE}
            if len(normal) == 1 and None not in normal and \
                    next(iter(normal)) != 0 and exc <= {0} and \
                    fi.name not in ('__call__', 'render', 'renderwb',
                                    'renderwob') and _has_callers(
                                        model, fi):
                helpers[fi.where] = next(iter(normal))
    if helpers:
        # callers of helpers are analysed too
        known = {f.where for f, _ in funcs}
        for g in model.all_funcs():
            if g.where in known:
                continue
            for n in own_nodes(g.node):
                if isinstance(n, ast.Call) and any(
                        t[0] == 'func' and t[1].where in helpers
                        for t in model.resolve_callee(n.func, g)):
                    funcs.append((g, set()))
                    known.add(g.where)
                    break
    total_exits = 0
    obligated = 0
    for fi, counters in funcs:
        if fi.where in helpers:
            r1.instance(fi.where, f'def {fi.node.name}',
                        f'helper with net effect {helpers[fi.where]:+d} '
                        '(accounted for at its call sites)')
            continue
        dom, outs = analyse_function(model, fi, counters, rm, helpers,
                                     fhelp)
        exits = [o for o in outs if o.kind in (NORMAL, RETURN, RAISE)]
        total_exits += len(exits)
        bad = 0
        touches_caller = any(
            (o.state.depth != 0 or o.state.rel is not None) for o in outs) \
            or _pushes_on_nonfresh(model, fi)
        if touches_caller:
            obligated += 1
        level_writer = any(
            isinstance(n, ast.Attribute) and n.attr == 'level' and
            isinstance(n.ctx, ast.Store) for n in own_nodes(fi.node)) or any(
            isinstance(n, ast.Call) and isinstance(n.func, ast.Attribute)
            and n.func.attr in level_helpers(model)
            and isinstance(n.func.value, ast.Name)
            for n in own_nodes(fi.node))
        if fi.cls is not None and fi.name in level_helpers(model):
            level_writer = False     # the helper itself: judged at its uses
        for o in exits:
            st = o.state
            node = o.node
            label = {NORMAL: 'fall-through', RETURN: 'return',
                     RAISE: 'exception'}[o.kind]
            cons = norm(node) if node is not None else '<end of function>'
            if st.depth is None:
                bad += 1
                r1.finding(fi.where, f'{label}: {cons}',
                           'stack depth cannot be shown to be 0 at this '
                           f'exit (depth = {st.rel} + counter)',
                           node=node, ctx=fi, path=st.trace)
            elif st.depth != 0:
                bad += 1
                r1.finding(fi.where, f'{label}: {cons}',
                           f'namespace stack depth is {st.depth:+d} at this '
                           f'{label} exit (entries '
                           f'{"left on" if st.depth > 0 else "removed from"}'
                           ' the caller\'s namespace)',
                           node=node, ctx=fi, path=st.trace)
            if level_writer and (st.lvl_dirty or st.lvl_delta != 0):
                r2.finding(fi.where, f'{label}: {cons}',
                           'recursion level was changed and is not restored '
                           f'at this {label} exit', node=node, ctx=fi,
                           path=st.trace)
        for msg, n in dom.notes:
            r1.finding(fi.where, n if n is not None else fi.node.name, msg,
                       node=n, ctx=fi)
        r1.instance(fi.where, f'def {fi.node.name}',
                    'unbalanced' if bad else 'balanced',
                    exits=len(exits), counters=sorted(counters),
                    caller_namespace=bool(touches_caller))
        if level_writer:
            r2.instance(fi.where, 'level store', exits=len(exits))
    r1.stats = {'functions_with_pushes': len(funcs), 'exits': total_exits,
                'functions_with_obligation': obligated}
    r1.require_floor(9, 'pushing functions')
    if obligated < 8:
        raise AnalysisError('C08.R1: fewer than 8 functions push on a '
                            f'caller-provided namespace ({obligated})')
    r2.require_floor(1, 'level writers')
    # positive control
    r1.control('control: pop after body without finally',
               _control_fires(model))
    return [r1, r2]


def flag_helper_summaries(model, funcs, rm):
    """Functions that are handed a push callable by a pushing function and
    return a constant on every path: where -> (parameter index,
    [(returned constant, depth change)])."""
    out = {}
    for fi, _ in funcs:
        for c in own_nodes(fi.node):
            if not isinstance(c, ast.Call):
                continue
            for i, a in enumerate(c.args):
                if not (isinstance(a, ast.Name) and any(
                        isinstance(d, ast.Attribute) and d.attr == '_push'
                        for d in model.local_defs(fi, a.id))):
                    continue
                for t in model.resolve_callee(c.func, fi):
                    if t[0] != 'func' or t[1].where in out:
                        continue
                    h = t[1]
                    off = 1 if (h.cls is not None and
                                isinstance(c.func, ast.Attribute)) else 0
                    params = h.params()
                    if i + off >= len(params):
                        continue
                    init = S()
                    init.alias[params[i + off]] = ('push', False)
                    dom, outs = analyse_function(model, h, set(), rm,
                                                 init=init)
                    pairs = set()
                    good = True
                    for o in outs:
                        if o.kind == RAISE:
                            good = good and o.state.depth == 0
                        elif o.kind == RETURN and o.node is not None and \
                                getattr(o.node, 'value', None) is not None:
                            ok, v = dom.const_of(o.node.value, o.state)
                            good = good and ok and \
                                o.state.depth is not None
                            pairs.add((v, o.state.depth))
                        elif o.kind in (NORMAL, RETURN):
                            good = good and o.state.depth is not None
                            pairs.add((None, o.state.depth))
                    if good and pairs and any(k for _, k in pairs):
                        out[h.where] = (i + off, sorted(pairs, key=repr))
    return out


def _has_callers(model, fi):
    for g in model.all_funcs():
        if g is fi:
            continue
        for n in own_nodes(g.node):
            if isinstance(n, ast.Call) and any(
                    t[0] == 'func' and t[1] is fi
                    for t in model.resolve_callee(n.func, g)):
                return True
    return False


def _pushes_on_nonfresh(model, fi):
    for n in own_nodes(fi.node):
        if isinstance(n, ast.Call) and _is_attr_call(n, '_push'):
            return True
    return False


CONTROL_SRC = '''
def control(self, md):
    md._push({})
    r = render_blocks(self.section, md)
    md._pop(1)
    return r
'''


def _control_fires(model):
    from ..model import Model
    srcs = dict(model.sources)
    key = next(k for k in srcs if k.endswith('DT_Let.py'))
    srcs = {key: srcs[key] + '\n' + CONTROL_SRC}
    # a tiny model holding just this module is enough
    try:
        m = Model.__new__(Model)
        m.root = model.root
        m.modules = {}
        m.by_full = {}
        m.stats = {}
        m.sources = srcs
        for rel, src in srcs.items():
            m._add_module(rel, src)
        m._link()
        fi = m.func('DT_Let', 'control')
        dom, outs = analyse_function(m, fi, set(), RaiseModel(m))
        return any(o.kind == RAISE and o.state.depth == 1 for o in outs)
    except AnalysisError:
        return False


def rule_ownership(model):
    r = RuleResult('C08.R3', 'the stack list is touched only by its class; '
                   'no finally swallows a propagating exception')
    for fi in model.all_funcs():
        for n in own_nodes(fi.node):
            if isinstance(n, ast.Attribute) and n.attr == '_data':
                own = fi.cls is not None and \
                    isinstance(n.value, ast.Name) and n.value.id == 'self' \
                    and model.lookup_class_attr(fi.cls, '_data')[1] is None \
                    and any('_data' in _self_stores(c)
                            for c in model.mro(fi.cls))
                own = own or (fi.cls is not None and
                              isinstance(n.value, ast.Name) and
                              n.value.id == 'self' and
                              fi.cls.name in ('TemplateDict',
                                              'DictInstance'))
                r.instance(fi.where, n, 'own' if own else 'foreign')
                if not own:
                    r.finding(fi.where, n, 'namespace stack list accessed '
                              'outside its class', node=n, ctx=fi)
    pushers = {fi.where for fi, _ in pushing_functions(model)}
    for fi in model.all_funcs():
        if fi.where not in pushers:
            continue
        for n in own_nodes(fi.node):
            if isinstance(n, ast.Try) and n.finalbody:
                r.instance(fi.where, 'finally: ' + norm(n.finalbody[0]))
                for st in n.finalbody:
                    for s in ast.walk(st):
                        if isinstance(s, (ast.Return, ast.Break,
                                          ast.Continue)):
                            # break/continue of a loop inside the finally
                            # itself is harmless
                            if not isinstance(s, ast.Return) and \
                                    _loop_inside(s, n):
                                continue
                            r.finding(fi.where, s, 'finally block contains '
                                      f'{type(s).__name__.lower()}: swallows '
                                      'the propagating exception', node=s,
                                      ctx=fi)
    r.require_floor(8)
    return r


def _self_stores(ci):
    out = set()
    for m in ci.methods.values():
        for n in own_nodes(m.node):
            if isinstance(n, ast.Attribute) and \
                    isinstance(n.ctx, ast.Store) and \
                    isinstance(n.value, ast.Name) and n.value.id == 'self':
                out.add(n.attr)
    return out


def _loop_inside(node, try_node):
    from ..model import ancestors
    for a in ancestors(node):
        if a is try_node:
            return False
        if isinstance(a, (ast.For, ast.While)):
            return True
    return False


def _inl(rule):
    """Run a rule on the view in which helpers that are new w.r.t. the
    reference tree are inlined at their call sites (normalise.N2)."""
    def run(model):
        return rule(model.inlined_view())
    run.__name__ = rule.__name__
    return run


INLINED_VIEW = True
def _guarded_positive(node, name):
    """Is `node` inside the body of an `if <name>` / `if <name> > 0` /
    `if <name> >= 1` test?"""
    child = node
    for anc in ancestors(node):
        if isinstance(anc, (ast.FunctionDef, ast.AsyncFunctionDef)):
            break
        if isinstance(anc, ast.If) and any(
                child is x or any(child is y for y in ast.walk(x))
                for x in anc.body):
            t = anc.test
            tests = t.values if isinstance(t, ast.BoolOp) and isinstance(
                t.op, ast.And) else [t]
            for c in tests:
                if norm(c) == name:
                    return True
                if isinstance(c, ast.Compare) and len(c.ops) == 1 and \
                        norm(c.left) == name and isinstance(
                            c.comparators[0], ast.Constant):
                    v = c.comparators[0].value
                    if (isinstance(c.ops[0], ast.Gt) and v >= 0) or (
                            isinstance(c.ops[0], ast.GtE) and v >= 1) or (
                            isinstance(c.ops[0], ast.NotEq) and v == 0):
                        return True
        child = anc
    return False


def rule_pop_zero(model):
    r = RuleResult('C08.R4', 'popping zero entries removes nothing: either '
                   'TemplateDict._pop(n) removes exactly n entries for '
                   'n = 0 too, or no caller can pass 0 (a template that '
                   'pushed nothing and leaves through the recursion guard '
                   'must not empty the caller\'s namespace)')
    fi = model.func('_DocumentTemplate', 'TemplateDict._pop')
    ps = fi.params()
    if len(ps) < 2:
        raise AnalysisError('TemplateDict._pop signature changed')
    cnt = ps[1]
    unsafe = []
    for n in own_nodes(fi.node):
        if isinstance(n, ast.Slice):
            for bound in (n.lower, n.upper):
                if isinstance(bound, ast.UnaryOp) and isinstance(
                        bound.op, ast.USub) and cnt in {
                            x.id for x in ast.walk(bound.operand)
                            if isinstance(x, ast.Name)}:
                    if not _guarded_positive(n, cnt):
                        unsafe.append(n)
    r.instance(fi.where, 'removal of the last n entries',
               'exact for n = 0' if not unsafe else
               'NEGATIVE SLICE: n = 0 selects the whole stack')
    ncalls = 0
    for g in model.all_funcs():
        for c in own_nodes(g.node):
            if isinstance(c, ast.Call) and isinstance(
                    c.func, ast.Attribute) and c.func.attr == '_pop' and \
                    g is not fi:
                ncalls += 1
                if not unsafe:
                    continue
                a = c.args[0] if c.args else None
                ok = a is None or (isinstance(a, ast.Constant) and
                                   isinstance(a.value, int)
                                   and a.value >= 1) or (
                    isinstance(a, ast.Name) and
                    _guarded_positive(c, a.id))
                r.instance(g.where, c, 'count >= 1' if ok
                           else 'COUNT MAY BE 0')
                if not ok:
                    r.finding(g.where, c, f'`{norm(a)}` may be 0 here and '
                              '_pop(0) removes the whole namespace stack '
                              '(its negative slice selects everything): a '
                              'caller that catches the exception continues '
                              'with an empty namespace', node=c, ctx=g)
    if ncalls < 8:
        raise AnalysisError(f'C08.R4: only {ncalls} _pop call sites found')
    r.floor = 1
    return r


class _CS(BaseState):
    __slots__ = ('n', 'trace', 'cur_exc')

    def __init__(self, n=0):
        self.n = n
        self.trace = ()
        self.cur_exc = None

    def key(self):
        return self.n

    def copy(self):
        c = _CS(self.n)
        c.trace = self.trace
        return c


class _PushCount(Domain):
    """Counts the entries TemplateDict._push adds to the stack list."""

    def __init__(self, fi, param):
        self.fi = fi
        self.param = param
        self.other = []      # other mutations of the stack list
        self.foreign = []    # appended value is not the parameter
        self.stack = set()

    def _is_stack(self, e):
        if isinstance(e, ast.Attribute) and isinstance(e.value, ast.Name) \
                and e.value.id == 'self':
            self.stack.add(e.attr)
            return True
        return isinstance(e, ast.Name) and e.id in self.aliases

    aliases = frozenset()

    def effects(self, stmt, st):
        n = st
        for c in ast.walk(stmt):
            if isinstance(c, ast.Assign) and isinstance(
                    c.value, ast.Attribute) and isinstance(
                    c.value.value, ast.Name) and c.value.value.id == 'self' \
                    and isinstance(c.targets[0], ast.Name):
                self.aliases = self.aliases | {c.targets[0].id}
            if isinstance(c, ast.Call) and isinstance(c.func, ast.Attribute) \
                    and self._is_stack(c.func.value):
                if c.func.attr == 'append' and len(c.args) == 1:
                    n = n.copy()
                    n.n = min(n.n + 1, 3)
                    if not (isinstance(c.args[0], ast.Name) and
                            c.args[0].id == self.param):
                        self.foreign.append(c)
                elif c.func.attr in ('insert', 'extend', 'pop', 'remove',
                                     'clear', '__setitem__', '__iadd__'):
                    self.other.append(c)
            if isinstance(c, (ast.AugAssign,)) and self._is_stack(c.target):
                self.other.append(c)
            if isinstance(c, ast.Subscript) and isinstance(
                    c.ctx, (ast.Store, ast.Del)) and self._is_stack(c.value):
                self.other.append(c)
        return n


def rule_push_one(model):
    r = RuleResult('C08.R5', 'the stack primitive adds exactly one entry, '
                   'the object it is given, on every path: every tag pairs '
                   'an unconditional push with an unconditional pop, so a '
                   'push that sometimes adds nothing makes the paired pop '
                   'remove an entry of the enclosing block')
    fi = model.func('_DocumentTemplate', 'TemplateDict._push')
    ps = fi.params()
    if len(ps) < 2:
        raise AnalysisError('TemplateDict._push signature changed')
    dom = _PushCount(fi, ps[1])
    outs = Interp(dom).run(fi.node, _CS())
    exits = [o for o in outs if o.kind in (NORMAL, RETURN)]
    if not exits:
        raise AnalysisError('C08.R5: TemplateDict._push has no normal exit')
    for o in exits:
        what = norm(o.node) if o.node is not None else 'end of function'
        r.instance(fi.where, what, f'{o.state.n} entr'
                   f'{"y" if o.state.n == 1 else "ies"} added')
        if o.state.n != 1:
            r.finding(fi.where, f'exit with {o.state.n} entries added: '
                      f'{what}', f'_push leaves through `{what}` having '
                      f'added {o.state.n} entries to the namespace stack: '
                      'the pop every block tag pairs with its push then '
                      'removes an entry that belongs to the enclosing '
                      'block or the caller', node=o.node or fi.node, ctx=fi,
                      path=o.state.trace)
    for c in dom.other:
        r.finding(fi.where, c, '_push modifies the stack list other than '
                  'by appending one entry', node=c, ctx=fi)
    for c in dom.foreign:
        r.finding(fi.where, c, '_push appends something other than the '
                  'object it was given', node=c, ctx=fi)
    r.floor = 1
    return r


RULES_PLAIN = [rule_balance, rule_ownership, rule_pop_zero, rule_push_one]
RULES = [_inl(r_) for r_ in RULES_PLAIN] if INLINED_VIEW else RULES_PLAIN
EXPLANATION = (
    'Structured path-sensitive abstract interpretation (stack depth, '
    'counted-push relation, fresh-namespace set, flag correlation) of every '
    'function that pushes on a namespace, over the CFG with exceptional '
    'edges of the may-raise model; obligation: depth 0 and level restored '
    'at every exit.')
ASSUMPTIONS = [
    'may-raise model of DESIGN 3.2: calls (except the benign table and '
    'derived-benign repo functions), namespace subscripts and explicit '
    'raise statements may raise; attribute loads, arithmetic, iteration and '
    'truth tests do not',
    'TemplateDict._push/_pop implement append / remove-from-end (pinned '
    'test test_push_pop)',
    'truthiness of an unmodified local is stable between two tests',
]
TRUSTED = ['python ast module', 'benign-call table in dtverif/mayraise.py']
