"""Rational functions over named symbols, in canonical form.

Abstract domain for formula agreement (C16): the value of an arithmetic
expression is a quotient of two polynomials with rational coefficients;
two expressions denote the same real-valued function iff their canonical
forms are equal (cross-multiplication).  Uninterpreted applications
(sqrt(x)) are symbols named by the canonical text of their argument.
Pure algebra: no floating point, no evaluation of repository code.
"""
import ast
from fractions import Fraction


class NotRational(Exception):
    pass


class Poly:
    """dict monomial -> Fraction; monomial = tuple of (symbol, power)."""
    __slots__ = ('t',)

    def __init__(self, terms=None):
        self.t = {m: c for m, c in (terms or {}).items() if c != 0}

    @staticmethod
    def const(c):
        return Poly({(): Fraction(c)})

    @staticmethod
    def sym(name):
        return Poly({((name, 1),): Fraction(1)})

    def __add__(self, o):
        t = dict(self.t)
        for m, c in o.t.items():
            t[m] = t.get(m, 0) + c
        return Poly(t)

    def __neg__(self):
        return Poly({m: -c for m, c in self.t.items()})

    def __sub__(self, o):
        return self + (-o)

    def __mul__(self, o):
        t = {}
        for m1, c1 in self.t.items():
            for m2, c2 in o.t.items():
                d = dict(m1)
                for s, p in m2:
                    d[s] = d.get(s, 0) + p
                m = tuple(sorted(d.items()))
                t[m] = t.get(m, 0) + c1 * c2
        return Poly(t)

    def is_zero(self):
        return not self.t

    def key(self):
        return tuple(sorted(self.t.items()))

    def __repr__(self):
        if not self.t:
            return '0'
        out = []
        for m, c in sorted(self.t.items()):
            mono = '*'.join(s if p == 1 else f'{s}^{p}' for s, p in m)
            if not mono:
                out.append(str(c))
            elif c == 1:
                out.append(mono)
            else:
                out.append(f'{c}*{mono}')
        return ' + '.join(out)


class Rat:
    __slots__ = ('n', 'd')

    def __init__(self, n, d=None):
        self.n = n
        self.d = d if d is not None else Poly.const(1)
        if self.d.is_zero():
            raise NotRational('division by zero polynomial')

    @staticmethod
    def const(c):
        return Rat(Poly.const(c))

    @staticmethod
    def sym(name):
        return Rat(Poly.sym(name))

    def __add__(self, o):
        return Rat(self.n * o.d + o.n * self.d, self.d * o.d)

    def __sub__(self, o):
        return Rat(self.n * o.d - o.n * self.d, self.d * o.d)

    def __mul__(self, o):
        return Rat(self.n * o.n, self.d * o.d)

    def __truediv__(self, o):
        if o.n.is_zero():
            raise NotRational('division by zero')
        return Rat(self.n * o.d, self.d * o.n)

    def __neg__(self):
        return Rat(-self.n, self.d)

    def same(self, o):
        """equal as functions (cross-multiplied polynomials agree)"""
        return (self.n * o.d - o.n * self.d).is_zero()

    def text(self):
        if self.d.key() == Poly.const(1).key():
            return repr(self.n)
        return f'({self.n!r}) / ({self.d!r})'


def canon_text(r):
    """a canonical name for r (used to name sqrt(...) symbols): the
    cross-multiplication class is not unique as text, so normalise the
    leading coefficient of the denominator and cancel monomial content"""
    n, d = r.n, r.d
    # divide both by the gcd monomial
    monos = list(n.t) + list(d.t)
    if monos:
        common = dict(monos[0])
        for m in monos[1:]:
            dm = dict(m)
            common = {s: min(p, dm.get(s, 0)) for s, p in common.items()
                      if s in dm}
        common = {s: p for s, p in common.items() if p > 0}
        if common:
            def div(poly):
                t = {}
                for m, c in poly.t.items():
                    dm = dict(m)
                    for s, p in common.items():
                        dm[s] -= p
                    t[tuple(sorted((s, p) for s, p in dm.items()
                                   if p))] = c
                return Poly(t)
            n, d = div(n), div(d)
    lead = sorted(d.t.items())[0][1]
    n = Poly({m: c / lead for m, c in n.t.items()})
    d = Poly({m: c / lead for m, c in d.t.items()})
    return Rat(n, d).text()


def _sqrt(a, env):
    """the symbol for sqrt(a): one name per class of equal arguments"""
    reg = env.setdefault('__sqrt__', [])
    for arg, name in reg:
        if arg.same(a):
            return Rat.sym(name)
    name = f'sqrt#{len(reg) + 1}<{canon_text(a)}>'
    reg.append((a, name))
    return Rat.sym(name)


def evaluate(e, env, floor_as_true=True):
    """Rat of expression e; names are looked up in env (name -> Rat),
    unknown names become symbols.  int(x) / float(x) are the identity,
    sqrt(x) and x ** 0.5 are the uninterpreted symbol sqrt<canon x>."""
    if isinstance(e, ast.Constant):
        if isinstance(e.value, bool) or not isinstance(
                e.value, (int, float)):
            raise NotRational(f'constant {e.value!r}')
        return Rat.const(Fraction(e.value).limit_denominator(10 ** 9)
                         if isinstance(e.value, float) else e.value)
    if isinstance(e, ast.Name):
        return env[e.id] if e.id in env else Rat.sym(e.id)
    if isinstance(e, ast.UnaryOp) and isinstance(e.op, ast.USub):
        return -evaluate(e.operand, env, floor_as_true)
    if isinstance(e, ast.UnaryOp) and isinstance(e.op, ast.UAdd):
        return evaluate(e.operand, env, floor_as_true)
    if isinstance(e, ast.BinOp):
        a = evaluate(e.left, env, floor_as_true)
        if isinstance(e.op, ast.Pow):
            if isinstance(e.right, ast.Constant) and \
                    isinstance(e.right.value, int) and \
                    0 <= e.right.value <= 6:
                r = Rat.const(1)
                for _ in range(e.right.value):
                    r = r * a
                return r
            if isinstance(e.right, ast.Constant) and e.right.value == 0.5:
                return _sqrt(a, env)
            raise NotRational('power')
        b = evaluate(e.right, env, floor_as_true)
        if isinstance(e.op, ast.Add):
            return a + b
        if isinstance(e.op, ast.Sub):
            return a - b
        if isinstance(e.op, ast.Mult):
            return a * b
        if isinstance(e.op, ast.Div) or (
                isinstance(e.op, ast.FloorDiv) and floor_as_true):
            return a / b
        raise NotRational(type(e.op).__name__)
    if isinstance(e, ast.Call):
        f = ast.unparse(e.func)
        if f in ('int', 'float') and len(e.args) == 1:
            return evaluate(e.args[0], env, floor_as_true)
        if f in ('sqrt', 'math.sqrt') and len(e.args) == 1:
            return _sqrt(evaluate(e.args[0], env, floor_as_true), env)
        if f == 'len' and len(e.args) == 1:
            return Rat.sym(f'len({ast.unparse(e.args[0])})')
        raise NotRational(f'call {f}')
    raise NotRational(type(e).__name__)
