"""May-raise model (DESIGN 3.2).

A statement has an exceptional successor iff it contains an explicit raise,
a call that is not benign, or a subscript load on a namespace-role receiver
(``md[...]`` is a call of TemplateDict.__getitem__).  Plain attribute loads,
arithmetic on locals, iteration and truth tests are not modelled as raising.

Benign callees: a frozen table (one reason each) plus *derived* benign repo
functions: a function of the repository is benign when its own body contains
no explicit raise, no namespace subscript and only benign calls (optimistic
fixpoint over recursion).
"""
import ast

from .model import own_nodes

# resolved external callees that cannot raise on the values the engine
# hands them (reason per entry)
BENIGN_EXT = {
    'builtins.isinstance': 'pure type test',
    'builtins.type': 'pure',
    'builtins.len': 'engine lists/tuples/dicts (len of client sequences '
                    'occurs only before any push)',
    'builtins.range': 'integers',
    'builtins.dict': 'engine data',
    'builtins.list': 'engine data',
    'builtins.tuple': 'engine data',
    'builtins.id': 'pure',
    'builtins.bool': 'engine flags',
    'io.StringIO': 'constructor without arguments',
    'traceback.print_exc': 'formats an already caught exception; the '
                           'traceback module guards a failing __str__',
    'sys.exc_info': 'pure',
}
# repo functions declared benign although they contain a raise (reason)
BENIGN_REPO = {
    'DT_Util:namespace': 'raises TypeError only when its first argument is '
                         'not a TemplateDict; every caller passes the '
                         'namespace',
    '_DocumentTemplate:TemplateDict.__call__':
        'called through namespace(md, **kw) with keyword arguments only: '
        'builds a DictInstance',
}
# method names on receivers that cannot be resolved: engine-owned lists,
# dicts, strings, StringIO
BENIGN_METHODS = {
    '_push', '_pop', 'append', 'getvalue', 'items', 'keys', 'values',
    'format', 'join', 'find', 'rfind', 'startswith', 'endswith',
    '__contains__', 'strip', 'lower', 'split',
}
# attribute names a namespace object is known by
NAMESPACE_NAMES = {'md', '_md', 'mapping_ns'}


class RaiseModel:
    def __init__(self, model, extra_benign_methods=(), namespace_names=None):
        self.model = model
        self._benign_fn = {}
        self.methods = set(BENIGN_METHODS) | set(extra_benign_methods)
        self.ns_names = set(namespace_names or NAMESPACE_NAMES)

    # ------------------------------------------------------------------
    def func_benign(self, fi, _stack=None):
        key = fi.where
        if key in BENIGN_REPO:
            return True
        if key in self._benign_fn:
            return self._benign_fn[key]
        _stack = _stack or set()
        if key in _stack:
            return True           # optimistic on recursion
        _stack = _stack | {key}
        ok = True
        for n in own_nodes(fi.node):
            if isinstance(n, ast.Raise):
                ok = False
                break
            if isinstance(n, ast.Call) and not self.call_benign(n, fi,
                                                                 _stack):
                ok = False
                break
            if self._ns_subscript(n):
                ok = False
                break
        self._benign_fn[key] = ok
        return ok

    def _ns_subscript(self, n):
        return (isinstance(n, ast.Subscript) and
                isinstance(n.ctx, ast.Load) and
                isinstance(n.value, ast.Name) and
                n.value.id in self.ns_names)

    def call_benign(self, call, fi, _stack=None):
        if _stack is None:
            c = getattr(call, '_dt_benign', None)
            if c is not None and c[0] is self:
                return c[1]
            r = self._call_benign(call, fi, None)
            call._dt_benign = (self, r)
            return r
        return self._call_benign(call, fi, _stack)

    def _call_benign(self, call, fi, _stack=None):
        f = call.func
        # getattr(x, 'lit', default) / hasattr on a namespace object
        if isinstance(f, ast.Name) and f.id in ('getattr', 'hasattr') and \
                call.args and isinstance(call.args[0], ast.Name) and \
                call.args[0].id in self.ns_names | {'self'}:
            return True
        # type(self)()
        if isinstance(f, ast.Call) and isinstance(f.func, ast.Name) and \
                f.func.id == 'type':
            return True
        targets = self.model.resolve_callee(f, fi)
        if not targets:
            return False
        for t in targets:
            if t[0] == 'ext':
                if t[1] not in BENIGN_EXT:
                    return False
            elif t[0] == 'func':
                if not self.func_benign(t[1], _stack):
                    return False
            elif t[0] == 'class':
                init = self.model.lookup_method(t[1], '__init__')
                if init is not None and not self.func_benign(init, _stack):
                    return False
            elif t[0] == 'method':
                if t[1] not in self.methods:
                    return False
            else:
                return False
        return True

    def expr_may_raise(self, node, fi):
        """Does evaluating `node` (an expr or simple stmt) have an
        exceptional successor?  Nested lambdas/defs are not evaluated."""
        stack = [node]
        while stack:
            n = stack.pop()
            if isinstance(n, (ast.Lambda, ast.FunctionDef,
                              ast.AsyncFunctionDef, ast.ClassDef)):
                continue
            if isinstance(n, ast.Call) and not self.call_benign(n, fi):
                return True
            if self._ns_subscript(n):
                return True
            stack.extend(ast.iter_child_nodes(n))
        return False
