"""Checker self-validation (DESIGN section 7): in-memory variants of the
current tree.  Must-fire variants break a property in a way that keeps the
code importable; must-stay-silent variants are behaviour preserving.  A
variant is produced by an exact, unique text substitution on one source file
(if the anchor text is gone the variant is reported as 'stale', which fails
the self-validation: the catalogue must follow the tree).

Run on every thorough check; also usable by hand:
    python -m dtverif.selfval C08
"""
import sys

from .core import AnalysisError
from .core import known_keys
from .model import Model


class Variant:
    def __init__(self, name, file, old, new, fires=None, count=1,
                 extra=()):
        self.extra = list(extra)   # further (old, new) pairs, same file
        self.name = name
        self.file = file          # path suffix, e.g. 'DT_Let.py'
        self.old = old
        self.new = new
        self.fires = fires        # rule id expected to fire; None = silent
        self.count = count


def V(name, file, old, new, fires=None, count=1, extra=()):
    return Variant(name, file, old, new, fires, count, extra)


def apply_variant(model, v):
    keys = [k for k in model.sources if k.endswith('/' + v.file)]
    if len(keys) != 1:
        return None
    src = model.sources[keys[0]]
    if src.count(v.old) != v.count:
        return None
    srcs = dict(model.sources)
    src = src.replace(v.old, v.new)
    for o, n in v.extra:
        if src.count(o) != 1:
            return None
        src = src.replace(o, n)
    srcs[keys[0]] = src
    try:
        return Model(sources=srcs, root=model.root)
    except AnalysisError:
        return None


def run_rules(mod, model):
    """-> (set of finding keys, set of rule ids with findings, error)"""
    keys = set()
    try:
        for rule in mod.RULES:
            res = rule(model)
            if not isinstance(res, list):
                res = [res]
            for r in res:
                r.check_controls()
                for f in r.findings:
                    keys.add((f.rule, f.key))
    except AnalysisError as e:
        return keys, str(e)
    return keys, None


def validate(pid, mod, model, base_results=None):
    cat = getattr(mod, 'VARIANTS', None)
    if cat is None:
        try:
            from . import variants
            cat = variants.CATALOGUE.get(pid, [])
        except ImportError:
            cat = []
    base, err = run_rules(mod, model)
    out = {'must_fire': 0, 'fired': 0, 'must_stay_silent': 0, 'silent': 0,
           'failures': [], 'variants': []}
    if err:
        out['failures'].append(f'baseline: {err}')
        return out
    for v in cat:
        m2 = apply_variant(model, v)
        rec = {'name': v.name, 'expect': v.fires or 'silent'}
        if v.fires:
            out['must_fire'] += 1
        else:
            out['must_stay_silent'] += 1
        if m2 is None:
            rec['result'] = 'stale'
            out['failures'].append(f'{v.name}: anchor text not found '
                                   f'(x{v.count}) in {v.file}')
            out['variants'].append(rec)
            continue
        keys, err = run_rules(mod, m2)
        new = keys - base
        rec['new_findings'] = sorted(k for _, k in new)[:4]
        if err:
            rec['analysis_error'] = err
        if v.fires:
            ok = any(r == v.fires for r, _ in new)
            if ok:
                out['fired'] += 1
                rec['result'] = 'fired'
            else:
                rec['result'] = 'MISSED'
                out['failures'].append(
                    f'{v.name}: expected {v.fires} to fire; new findings: '
                    f'{sorted(new)[:3]} error: {err}')
        else:
            if not new and not err:
                out['silent'] += 1
                rec['result'] = 'silent'
            else:
                rec['result'] = 'FALSE-ALARM'
                out['failures'].append(
                    f'{v.name}: expected silence; got {sorted(new)[:3]} '
                    f'error: {err}')
        out['variants'].append(rec)
    return out


def make_thorough(pid, mod):
    def thorough_extra(model, results):
        return validate(pid, mod, model)
    return thorough_extra


def main(argv):
    import importlib
    from .model import load_model
    model = load_model()
    pids = argv or None
    from . import variants
    rc = 0
    for pid in pids or sorted(variants.CATALOGUE):
        mod = importlib.import_module(f'dtverif.rules.{pid.lower()}')
        res = validate(pid, mod, model)
        print(pid, {k: v for k, v in res.items()
                    if k not in ('variants', 'failures')})
        for f in res['failures']:
            print('   FAIL', f)
            rc = 1
    return rc


if __name__ == '__main__':
    sys.exit(main(sys.argv[1:]))
