"""Checker self-validation (DESIGN section 7): in-memory variants of the
current tree.  Must-fire variants break a property in a way that keeps the
code importable; must-stay-silent variants are behaviour preserving.  A
variant is produced by an exact, unique text substitution on one source file
(if the anchor text is gone the variant is reported as 'stale', which fails
the self-validation: the catalogue must follow the tree).

Run on every thorough check; also usable by hand:
    python -m dtverif.selfval C08
"""
import sys

from .core import AnalysisError
from .core import known_keys
from .model import Model


class Variant:
    def __init__(self, name, file, old, new, fires=None, count=1,
                 extra=()):
        self.extra = list(extra)   # further (old, new) pairs, same file
        self.name = name
        self.file = file          # path suffix, e.g. 'DT_Let.py'
        self.old = old
        self.new = new
        self.fires = fires        # rule id expected to fire; None = silent
        self.count = count


def V(name, file, old, new, fires=None, count=1, extra=()):
    return Variant(name, file, old, new, fires, count, extra)


def apply_variant(model, v):
    keys = [k for k in model.sources if k.endswith('/' + v.file)]
    if len(keys) != 1:
        return None
    src = model.sources[keys[0]]
    if src.count(v.old) != v.count:
        return None
    srcs = dict(model.sources)
    src = src.replace(v.old, v.new)
    for o, n in v.extra:
        if src.count(o) != 1:
            return None
        src = src.replace(o, n)
    srcs[keys[0]] = src
    try:
        return Model(sources=srcs, root=model.root)
    except AnalysisError:
        return None


def run_rules(mod, model):
    """-> (set of finding keys, error text or None); like core.run_check a
    rule that cannot decide does not hide the findings of the others."""
    keys = set()
    errs = []
    for rule in mod.RULES:
        try:
            res = rule(model)
            if not isinstance(res, list):
                res = [res]
            for r in res:
                r.check_controls()
        except AnalysisError as e:
            errs.append(str(e))
            continue
        for r in res:
            for f in r.findings:
                keys.add((f.rule, f.key))
    return keys, ('; '.join(errs) if errs else None)


def _eval_variant(args):
    """Worker: evaluate one variant (text substitution or seeded patch)."""
    import importlib
    pid, sources, root, kind, payload, base = args
    mod = importlib.import_module(f'dtverif.rules.{pid.lower()}')
    model = Model(sources=sources, root=root)
    if kind == 'variant':
        v = payload
        m2 = apply_variant(model, v)
        name, fires = v.name, v.fires
    elif kind == 'refactor':
        name, patch = payload
        m2 = apply_patch(model, patch)
        fires = None
    else:
        name, patch = payload
        m2 = apply_patch(model, patch)
        fires = 'ANY'
    rec = {'name': name, 'expect': fires or 'silent', 'kind': kind}
    if m2 is None:
        rec['result'] = 'stale'
        return rec
    keys, err = run_rules(mod, m2)
    new = keys - base
    if kind == 'refactor' and new:
        # a known finding whose site was moved by the refactoring re-appears
        # under a new key: tolerated when, per rule, no more findings appear
        # than known findings vanished
        kk = set(known_keys())
        vanished = {}
        for r_, k_ in base - keys:
            if k_ in kk:
                vanished[r_] = vanished.get(r_, 0) + 1
        appeared = {}
        for r_, k_ in new:
            appeared[r_] = appeared.get(r_, 0) + 1
        if all(appeared[r_] <= vanished.get(r_, 0) for r_ in appeared):
            new = set()
    rec['new_findings'] = sorted(k for _, k in new)[:4]
    if err:
        rec['analysis_error'] = err
    if fires:
        ok = bool(new) if fires == 'ANY' else any(r == fires
                                                  for r, _ in new)
        rec['result'] = 'fired' if ok else 'MISSED'
    else:
        rec['result'] = 'silent' if not new and not err else 'FALSE-ALARM'
    return rec


def apply_patch(model, patch_path):
    """Model of the current sources with a unified diff applied (in a
    scratch directory outside /repo and /verif, removed afterwards)."""
    import os
    import shutil
    import subprocess
    import tempfile
    tmp = tempfile.mkdtemp(prefix='dtverif-seed-')
    try:
        for rel, src in model.sources.items():
            dst = os.path.join(tmp, rel)
            os.makedirs(os.path.dirname(dst), exist_ok=True)
            with open(dst, 'w', encoding='utf-8') as fh:
                fh.write(src)
        r = subprocess.run(['patch', '-p1', '--fuzz=3', '-s', '-i',
                            patch_path], cwd=tmp, capture_output=True)
        if r.returncode != 0:
            return None
        try:
            srcs = {}
            for rel in model.sources:
                with open(os.path.join(tmp, rel), encoding='utf-8') as fh:
                    srcs[rel] = fh.read()
            return Model(sources=srcs, root=model.root)
        except AnalysisError:
            return None
    finally:
        shutil.rmtree(tmp, ignore_errors=True)


def seeded_for(pid):
    """(name, patch path) of the kept sub-agent changes this property's
    check is recorded to detect."""
    import json
    import os
    base = os.path.join(os.path.dirname(os.path.dirname(
        os.path.abspath(__file__))), 'seeded')
    out = []
    if not os.path.isdir(base):
        return out
    for name in sorted(os.listdir(base)):
        mp = os.path.join(base, name, 'meta.json')
        pp = os.path.join(base, name, 'patch.diff')
        if not (os.path.exists(mp) and os.path.exists(pp)):
            continue
        with open(mp) as fh:
            meta = json.load(fh)
        if pid in meta.get('detected_by', []):
            out.append((name, pp))
    return out


def refactorings():
    """(name, patch) of the kept behaviour-preserving refactorings: every
    check must stay silent on each of them."""
    import os
    base = os.path.join(os.path.dirname(os.path.dirname(
        os.path.abspath(__file__))), 'refactorings')
    out = []
    if os.path.isdir(base):
        for name in sorted(os.listdir(base)):
            pp = os.path.join(base, name, 'patch.diff')
            if os.path.exists(pp):
                out.append((name, pp))
    return out


def validate(pid, mod, model, base_results=None, jobs=None):
    import os
    from concurrent.futures import ProcessPoolExecutor
    cat = getattr(mod, 'VARIANTS', None)
    if cat is None:
        try:
            from . import variants
            cat = variants.CATALOGUE.get(pid, [])
        except ImportError:
            cat = []
    base, err = run_rules(mod, model)
    out = {'must_fire': 0, 'fired': 0, 'must_stay_silent': 0, 'silent': 0,
           'seeded': 0, 'seeded_fired': 0, 'seeded_stale': 0,
           'failures': [], 'variants': []}
    if err:
        out['failures'].append(f'baseline: {err}')
        return out
    tasks = [(pid, model.sources, model.root, 'variant', v, base)
             for v in cat]
    tasks += [(pid, model.sources, model.root, 'seeded', sp, base)
              for sp in seeded_for(pid)]
    tasks += [(pid, model.sources, model.root, 'refactor', rp, base)
              for rp in refactorings()]
    jobs = jobs or min(16, os.cpu_count() or 4, max(1, len(tasks)))
    if jobs > 1 and len(tasks) > 2:
        with ProcessPoolExecutor(max_workers=jobs) as ex:
            recs = list(ex.map(_eval_variant, tasks))
    else:
        recs = [_eval_variant(t) for t in tasks]
    for rec in recs:
        if rec['kind'] == 'seeded':
            out['seeded'] += 1
            if rec['result'] == 'fired':
                out['seeded_fired'] += 1
            elif rec['result'] == 'stale':
                out['seeded_stale'] += 1     # patch no longer applies
            else:
                out['failures'].append(
                    f'seeded {rec["name"]}: no longer detected '
                    f'({rec.get("analysis_error")})')
        elif rec['kind'] == 'refactor':
            out['refactorings'] = out.get('refactorings', 0) + 1
            if rec['result'] == 'silent':
                out['refactorings_silent'] = out.get(
                    'refactorings_silent', 0) + 1
            elif rec['result'] == 'stale':
                out['refactorings_stale'] = out.get(
                    'refactorings_stale', 0) + 1
            else:
                out['failures'].append(
                    f'refactoring {rec["name"]}: expected silence; got '
                    f'{rec.get("new_findings")} error: '
                    f'{rec.get("analysis_error")}')
        elif rec['expect'] != 'silent':
            out['must_fire'] += 1
            if rec['result'] == 'fired':
                out['fired'] += 1
            elif rec['result'] == 'stale':
                out['failures'].append(f'{rec["name"]}: anchor text not '
                                       'found (catalogue is stale)')
            else:
                out['failures'].append(
                    f'{rec["name"]}: expected {rec["expect"]} to fire; new '
                    f'findings: {rec.get("new_findings")} error: '
                    f'{rec.get("analysis_error")}')
        else:
            out['must_stay_silent'] += 1
            if rec['result'] == 'silent':
                out['silent'] += 1
            elif rec['result'] == 'stale':
                out['failures'].append(f'{rec["name"]}: anchor text not '
                                       'found (catalogue is stale)')
            else:
                out['failures'].append(
                    f'{rec["name"]}: expected silence; got '
                    f'{rec.get("new_findings")} error: '
                    f'{rec.get("analysis_error")}')
        out['variants'].append(rec)
    return out


def make_thorough(pid, mod):
    def thorough_extra(model, results):
        return validate(pid, mod, model)
    return thorough_extra


def main(argv):
    import importlib
    from .model import load_model
    model = load_model()
    pids = argv or None
    from . import variants
    rc = 0
    for pid in pids or sorted(variants.CATALOGUE):
        mod = importlib.import_module(f'dtverif.rules.{pid.lower()}')
        res = validate(pid, mod, model)
        print(pid, {k: v for k, v in res.items()
                    if k not in ('variants', 'failures')})
        for f in res['failures']:
            print('   FAIL', f)
            rc = 1
    return rc


if __name__ == '__main__':
    sys.exit(main(sys.argv[1:]))
