"""Render-time writes to objects shared by all renders of a template
(C17.R1 / C18.R3): the template instance, the compiled tag objects, classes
and module-level containers."""
import ast

from .callgraph import CallGraph
from .core import norm
from .model import own_nodes
from .render import render_entries

# management / construction API of templates: not reachable from rendering
API_MUTATORS = {
    '__init__', 'setName', 'default', 'var', 'munge', 'manage_edit',
    'initvars', 'cook', 'manage_default', '__setstate__', 'read_raw',
    'read', 'manage_editForm',
}
# classes instantiated per render (their attribute stores are per-render)
PER_RENDER_CLASSES = {
    'TemplateDict', 'InstanceDict', 'DictInstance', 'sequence_variables',
    'SequenceFromIter', 'SortBy', 'Add_with_prefix',
    'StringFunctionWrapper', 'NotBindable', 'dtml_re_class', 'DTReturn',
}
MUTATORS = {'append', 'extend', 'insert', 'pop', 'remove', 'clear',
            'update', 'setdefault', 'popitem', 'sort', 'reverse',
            '__setitem__', '__delitem__', '_push', '_pop'}


def _cg(model):
    cg = getattr(model, '_dt_cg', None)
    if cg is None:
        cg = model._dt_cg = CallGraph(model)
        model._dt_compile = cg.compile_phase()
    return cg


def shared_classes(model):
    """Template classes and compiled-tag classes."""
    cg = _cg(model)
    out = {}
    S = model.cls('DT_String', 'String')
    out[id(S)] = ('template', S)
    for c in model.subclasses(S):
        out[id(c)] = ('template', c)
    fm = model.modules['DT_String'].classes.get('FileMixin')
    if fm is not None:
        out[id(fm)] = ('template', fm)
    for key, ent in cg.registry.entries.items():
        c = ent['cls']
        if c is None:
            continue
        out[id(c)] = ('tag', c)
        # factory: the class it instantiates
        if ent['kind'] == 'instance':
            call = model.lookup_method(c, '__call__')
            if call is not None:
                for n in own_nodes(call.node):
                    if isinstance(n, ast.Call):
                        for t in model.resolve_callee(n.func, call):
                            if t[0] == 'class':
                                out[id(t[1])] = ('tag', t[1])
    ev = model.modules['DT_Util'].classes.get('Eval')
    if ev is not None:
        out[id(ev)] = ('tag', ev)
    return out


def render_functions(model):
    """Functions that can run while a template is rendered."""
    cg = _cg(model)
    roots = ['DT_String:String.__call__']
    roots += list(render_entries(model, cg))
    for c in model.all_classes():
        if c.name in PER_RENDER_CLASSES:
            roots += [m.where for m in c.methods.values()]
    for fi in model.all_funcs():
        # module-level helpers of the render modules (modifiers, formats,
        # tree functions, careful_getattr ...) are reachable dynamically
        if fi.cls is None and fi.parent is None and fi.module.short in (
                'DT_Var', 'DT_In', 'DT_InSV', 'TreeTag', 'DT_Util',
                '_DocumentTemplate', 'html_quote', 'ustr'):
            roots.append(fi.where)
    reach = cg.reachable(roots)
    comp = model._dt_compile
    out = []
    for w in sorted(reach):
        fi = cg.funcs[w]
        if fi.name in API_MUTATORS:
            continue
        if w in comp and fi.cls is not None and \
                fi.name not in ('__call__',):
            # compile-phase methods (parse ...) are not render code
            continue
        out.append(fi)
    # all non-constructor methods of tag classes -- except helpers that only
    # constructors call (a phase split off __init__ is construction code)
    callers = {}
    for a, bs in cg.edges.items():
        for b in bs:
            callers.setdefault(b, set()).add(a)
    ctor_only = {w for w, f in cg.funcs.items() if f.name == '__init__'}
    changed = True
    while changed:
        changed = False
        for w, f in cg.funcs.items():
            if w in ctor_only or (w in reach and w not in comp):
                continue
            cs = callers.get(w, set()) - {w}
            if cs and all(c in ctor_only for c in cs):
                ctor_only.add(w)
                changed = True
    sc = shared_classes(model)
    for kind, c in sc.values():
        if kind == 'tag':
            for m in c.methods.values():
                if m.name not in API_MUTATORS and m not in out and \
                        m.where not in ctor_only:
                    out.append(m)
    return out


def _shared_aliases(model, rfuncs, sc):
    """where -> {local or parameter name: description} for names that may be
    bound to an attribute object of a shared template / tag: `x = self.a`
    inside a method of a shared class, and parameters that receive such a
    value (or `self.a` itself) at a call site in render code (fixpoint)."""
    shared_cls_ids = set(sc)
    al = {}

    def self_attr(e):
        if isinstance(e, ast.Subscript):
            e = e.value
        return isinstance(e, ast.Attribute) and \
            isinstance(e.value, ast.Name) and e.value.id == 'self'
    for fi in rfuncs:
        if fi.cls is None or id(fi.cls) not in shared_cls_ids:
            continue
        for n in own_nodes(fi.node):
            if isinstance(n, ast.Assign) and len(n.targets) == 1 and \
                    isinstance(n.targets[0], ast.Name) and \
                    self_attr(n.value):
                al.setdefault(fi.where, {})[n.targets[0].id] = \
                    f'{norm(n.value)} of the shared {sc[id(fi.cls)][0]}'
    changed = True
    rounds = 0
    by_where = {f.where: f for f in rfuncs}
    while changed and rounds < 6:
        changed = False
        rounds += 1
        for fi in rfuncs:
            mine = al.get(fi.where, {})
            in_shared = fi.cls is not None and id(fi.cls) in shared_cls_ids
            for n in own_nodes(fi.node):
                if not isinstance(n, ast.Call):
                    continue
                for t in model.resolve_callee(n.func, fi):
                    if t[0] != 'func' or t[1].where not in by_where:
                        continue
                    callee = t[1]
                    ps = callee.params()
                    off = 1 if (callee.cls is not None and
                                ps[:1] == ['self']) else 0
                    for i, a in enumerate(n.args):
                        desc = None
                        if isinstance(a, ast.Name) and a.id in mine:
                            desc = mine[a.id]
                        elif in_shared and self_attr(a):
                            desc = f'{norm(a)} of the shared ' \
                                   f'{sc[id(fi.cls)][0]}'
                        if desc is None or i + off >= len(ps):
                            continue
                        d = al.setdefault(callee.where, {})
                        if ps[i + off] not in d:
                            d[ps[i + off]] = desc + f' (passed by ' \
                                                    f'{fi.where})'
                            changed = True
    return al


def _globals_of(fi):
    g = getattr(fi, '_dt_globals', None)
    if g is None:
        g = set()
        for n in own_nodes(fi.node):
            if isinstance(n, ast.Global):
                g.update(n.names)
        fi._dt_globals = g
    return g


def shared_writes(model):
    """-> list of dict(fi, node, target, kind) for every store, in render
    code, to an attribute / item of a shared object."""
    sc = shared_classes(model)
    shared_cls_ids = set(sc)
    out = []
    rfuncs = render_functions(model)
    aliases = _shared_aliases(model, rfuncs, sc)
    for fi in rfuncs:
        in_shared = fi.cls is not None and id(fi.cls) in shared_cls_ids
        al = aliases.get(fi.where, {})
        for n in own_nodes(fi.node):
            # stores / mutations through a local or parameter that may be
            # bound to an attribute object of a shared template / tag
            if al:
                tg = []
                if isinstance(n, ast.Assign):
                    tg = n.targets
                elif isinstance(n, (ast.AugAssign, ast.AnnAssign)):
                    tg = [n.target]
                elif isinstance(n, ast.Delete):
                    tg = n.targets
                for t in tg:
                    for x in ([t] if not isinstance(t, (ast.Tuple, ast.List))
                              else t.elts):
                        if isinstance(x, (ast.Attribute, ast.Subscript)) \
                                and isinstance(x.value, ast.Name) and \
                                x.value.id in al:
                            out.append(dict(
                                fi=fi, node=n, target=norm(x),
                                kind=('store through `%s`, which may be '
                                      'bound to %s') % (x.value.id,
                                                        al[x.value.id])))
                if isinstance(n, ast.Call) and \
                        isinstance(n.func, ast.Attribute) and \
                        n.func.attr in MUTATORS and \
                        isinstance(n.func.value, ast.Name) and \
                        n.func.value.id in al:
                    out.append(dict(
                        fi=fi, node=n, target=norm(n.func.value),
                        kind=('mutation through `%s`, which may be bound '
                              'to %s') % (n.func.value.id,
                                          al[n.func.value.id])))
            tgts = []
            if isinstance(n, ast.Assign):
                tgts = n.targets
            elif isinstance(n, (ast.AugAssign, ast.AnnAssign)):
                tgts = [n.target]
            elif isinstance(n, ast.Delete):
                tgts = n.targets
            for t in tgts:
                for x in ([t] if not isinstance(t, (ast.Tuple, ast.List))
                          else t.elts):
                    if isinstance(x, ast.Attribute) and \
                            isinstance(x.value, ast.Name):
                        if x.value.id == 'self' and in_shared:
                            out.append(dict(fi=fi, node=n, target=norm(x),
                                            kind=sc[id(fi.cls)][0] +
                                            ' attribute'))
                        else:
                            r = model.resolve_global(fi.module, x.value.id)
                            if r and r[0] == 'class' and not \
                                    model.local_defs(fi, x.value.id):
                                out.append(dict(fi=fi, node=n,
                                                target=norm(x),
                                                kind='class attribute'))
                            elif x.value.id in fi.module.imports and not \
                                    model.local_defs(fi, x.value.id) and \
                                    (not r or r[0] in ('module', 'ext')):
                                # `import m` / `from . import m`; m.x = v
                                out.append(dict(
                                    fi=fi, node=n, target=norm(x),
                                    kind='attribute of a module '
                                         '(process-wide state)'))
                    if isinstance(x, ast.Name) and x.id in _globals_of(fi):
                        out.append(dict(fi=fi, node=n, target=x.id,
                                        kind='module-level name (global '
                                             'statement)'))
                    if isinstance(x, ast.Subscript):
                        base = x.value
                        if isinstance(base, ast.Attribute) and \
                                isinstance(base.value, ast.Name) and \
                                base.value.id == 'self' and in_shared:
                            out.append(dict(fi=fi, node=n, target=norm(x),
                                            kind='item of a ' +
                                            sc[id(fi.cls)][0] +
                                            ' attribute'))
                        elif isinstance(base, ast.Name) and \
                                not model.local_defs(fi, base.id) and \
                                base.id in fi.module.globals:
                            out.append(dict(fi=fi, node=n, target=norm(x),
                                            kind='module-level container'))
            if isinstance(n, ast.Call) and isinstance(n.func, ast.Attribute)\
                    and n.func.attr in MUTATORS:
                base = n.func.value
                if isinstance(base, ast.Attribute) and \
                        isinstance(base.value, ast.Name) and \
                        base.value.id == 'self' and in_shared:
                    out.append(dict(fi=fi, node=n, target=norm(base),
                                    kind='mutation of a ' +
                                    sc[id(fi.cls)][0] + ' attribute'))
                elif isinstance(base, ast.Name) and \
                        not model.local_defs(fi, base.id) and \
                        base.id in fi.module.globals and \
                        fi.parent is None:
                    out.append(dict(fi=fi, node=n, target=norm(base),
                                    kind='mutation of a module-level '
                                         'container'))
    # mutable class-level attributes reached through `self` that no method
    # ever re-binds per instance: one object for all instances (and all
    # renders), also in classes that are instantiated per render
    for fi in rfuncs:
        ci = fi.cls
        if ci is None:
            continue
        shared_attrs = _class_level_mutables(model, ci)
        if not shared_attrs:
            continue
        for n in own_nodes(fi.node):
            base = None
            if isinstance(n, ast.Call) and isinstance(
                    n.func, ast.Attribute) and n.func.attr in MUTATORS | {
                        'add', 'discard'}:
                base = n.func.value
            elif isinstance(n, ast.Subscript) and isinstance(
                    n.ctx, (ast.Store, ast.Del)):
                base = n.value
            if isinstance(base, ast.Attribute) and isinstance(
                    base.value, ast.Name) and base.value.id == 'self' and \
                    base.attr in shared_attrs:
                if any(o['node'] is n for o in out):
                    continue
                out.append(dict(
                    fi=fi, node=n, target=norm(base),
                    kind='class-level mutable attribute (one object for '
                         'all instances, never re-bound per instance)'))
    return out


def _class_level_mutables(model, ci):
    cached = getattr(ci, '_dt_clm', None)
    if cached is not None:
        return cached
    out = set()
    for c in model.mro(ci):
        if isinstance(c, str):
            continue
        for name, v in c.attrs.items():
            mutable = isinstance(v, (ast.Dict, ast.List, ast.Set)) or (
                isinstance(v, ast.Call) and isinstance(v.func, ast.Name)
                and v.func.id in ('set', 'dict', 'list', 'defaultdict',
                                  'OrderedDict'))
            if mutable:
                out.add(name)
    # re-bound per instance somewhere in the hierarchy?
    for c in model.mro(ci):
        if isinstance(c, str):
            continue
        for m in c.methods.values():
            for n in own_nodes(m.node):
                if isinstance(n, (ast.Assign, ast.AnnAssign)):
                    tg = n.targets if isinstance(n, ast.Assign) \
                        else [n.target]
                    for t in tg:
                        if isinstance(t, ast.Attribute) and isinstance(
                                t.value, ast.Name) and t.value.id == 'self':
                            out.discard(t.attr)
    ci._dt_clm = out
    return out
