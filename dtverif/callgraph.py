"""Resolved call graph, the tag registry and phase classification (E0)."""
import ast

from .core import AnalysisError
from .model import FuncInfo
from .model import own_nodes


class Registry:
    """String.commands: key -> ('class', ClassInfo) | ('instance', ClassInfo)
    resolved from the class-level dict literal, lazy tuples and the
    subscript stores `String.commands[...] = X` anywhere in the repo."""

    def __init__(self, model):
        self.model = model
        self.entries = {}       # key -> dict(kind, cls, lazy, node, module)
        self.problems = []
        S = model.cls('DT_String', 'String')
        node = S.attrs.get('commands')
        if not isinstance(node, ast.Dict):
            raise AnalysisError('String.commands is not a dict literal')
        self.dict_node = node
        m = S.module
        for k, v in zip(node.keys, node.values):
            if not isinstance(k, ast.Constant):
                self.problems.append((k, 'non-constant registry key'))
                continue
            self._add(k.value, v, m)
        # String.commands['x'] = Y   anywhere at module level
        for mod in model.modules.values():
            for st in ast.walk(mod.tree):
                if isinstance(st, ast.Assign) and len(st.targets) == 1 and \
                        isinstance(st.targets[0], ast.Subscript):
                    t = st.targets[0]
                    if isinstance(t.value, ast.Attribute) and \
                            t.value.attr == 'commands' and \
                            isinstance(t.slice, ast.Constant):
                        r = model.resolve_name_expr(mod, t.value.value)
                        if r and r[0] == 'class' and S in model.mro(r[1]):
                            self._add(t.slice.value, st.value, mod)

    def _add(self, key, v, m):
        model = self.model
        ent = {'key': key, 'node': v, 'module': m, 'lazy': None,
               'kind': None, 'cls': None}
        target = None
        if isinstance(v, ast.Tuple) and len(v.elts) == 3 and all(
                isinstance(e, ast.Constant) for e in v.elts):
            cname, modname, attr = [e.value for e in v.elts]
            ent['lazy'] = (cname, modname, attr)
            tm = model.modules.get(modname) or \
                model.by_full.get('DocumentTemplate.' + modname)
            if tm is None:
                self.problems.append((v, f'lazy entry {key!r}: module '
                                      f'{modname} does not exist'))
            else:
                target = model.resolve_global(tm, attr)
                if target is None:
                    self.problems.append((v, f'lazy entry {key!r}: '
                                          f'{modname}.{attr} not defined'))
            if cname != key:
                self.problems.append((v, f'lazy entry {key!r} registers '
                                      f'itself as {cname!r}'))
        else:
            target = model.resolve_name_expr(m, v)
            if target is None:
                self.problems.append((v, f'entry {key!r} does not resolve'))
        if target is not None:
            if target[0] == 'class':
                ent['kind'], ent['cls'] = 'class', target[1]
            elif target[0] == 'value':
                # instance of a factory class:  In = InFactory()
                for val in target[1]:
                    if isinstance(val, ast.Call):
                        r = model.resolve_name_expr(target[2], val.func)
                        if r and r[0] == 'class':
                            ent['kind'], ent['cls'] = 'instance', r[1]
                if ent['cls'] is None:
                    self.problems.append((v, f'entry {key!r}: not a class '
                                          'or factory instance'))
            else:
                self.problems.append((v, f'entry {key!r}: unexpected '
                                      f'target {target[0]}'))
        self.entries[key] = ent

    def constructors(self):
        """FuncInfos run when a command is instantiated by the parser."""
        out = []
        for ent in self.entries.values():
            c = ent['cls']
            if c is None:
                continue
            if ent['kind'] == 'class':
                f = self.model.lookup_method(c, '__init__')
            else:
                f = self.model.lookup_method(c, '__call__')
            if f is not None:
                out.append((ent['key'], f))
        return out

    def class_attr(self, ent, name):
        c = ent['cls']
        if c is None:
            return None
        _, v = self.model.lookup_class_attr(c, name)
        return v


def recv_is_external(model, recv, fi):
    """Is the receiver of a method call an object made by an external
    constructor (re.compile(...) and the like), directly or through a
    local / module-level name bound to nothing else?"""
    def ext_call(e, ctx):
        return isinstance(e, ast.Call) and any(
            x[0] == 'ext' for x in model.resolve_callee(e.func, ctx))
    if ext_call(recv, fi):
        return True
    if isinstance(recv, ast.Name):
        defs = model.local_defs(fi, recv.id) if fi is not None else []
        if defs:
            return all(isinstance(d, ast.AST) and ext_call(d, fi)
                       for d in defs)
        r = model.resolve_global(fi.module, recv.id) if fi else None
        if r and r[0] == 'value' and r[1]:
            from .model import _ModuleCtx
            return all(ext_call(v, _ModuleCtx(r[2])) for v in r[1])
    return False


class CallGraph:
    def __init__(self, model, registry=None):
        self.model = model
        self.registry = registry or Registry(model)
        self.edges = {}          # where -> set(where)
        self.funcs = {}
        for fi in model.all_funcs():
            self.funcs[fi.where] = fi
        for fi in model.all_funcs():
            self.edges[fi.where] = self._callees(fi)

    def _callees(self, fi):
        out = set()
        model = self.model
        for n in own_nodes(fi.node):
            if not isinstance(n, ast.Call):
                continue
            for t in model.resolve_callee(n.func, fi):
                if t[0] == 'func':
                    out.add(t[1].where)
                elif t[0] == 'class':
                    f = model.lookup_method(t[1], '__init__')
                    if f is not None:
                        out.add(f.where)
                elif t[0] == 'method':
                    # receiver of an in-repo class by attribute name:
                    # unique method name in the repo
                    if t[1] in ('eval',):
                        continue
                    recv = t[2]
                    if recv_is_external(model, recv, fi):
                        continue
                    cands = [g for g in model.all_funcs()
                             if g.cls is not None and g.name == t[1]
                             and g.parent is None]
                    if len(cands) == 1 and not t[1].startswith('__'):
                        out.add(cands[0].where)
                elif t[0] == 'unknown':
                    # command(args) / scommand(blocks): registry dispatch
                    if isinstance(n.func, ast.Name) and \
                            n.func.id in ('command', 'scommand'):
                        for _, f in self.registry.constructors():
                            out.add(f.where)
        # nested defs are reachable from their parent
        for n in own_nodes(fi.node):
            if isinstance(n, (ast.FunctionDef, ast.AsyncFunctionDef)):
                out.add(n._dt_func.where)
        return out

    def reachable(self, roots):
        seen = set()
        stack = [r for r in roots]
        while stack:
            w = stack.pop()
            if w in seen or w not in self.edges:
                continue
            seen.add(w)
            stack.extend(self.edges[w])
        return seen

    def compile_phase(self):
        roots = ['DT_String:String.cook']
        roots += [f.where for _, f in self.registry.constructors()]
        r = self.reachable(roots)
        # overrides of reachable methods in subclasses
        more = True
        while more:
            more = False
            for w in list(r):
                fi = self.funcs[w]
                if fi.cls is None or fi.parent is not None:
                    continue
                for sc in self.model.subclasses(fi.cls):
                    if fi.name in sc.methods and \
                            sc.methods[fi.name].where not in r:
                        r |= self.reachable([sc.methods[fi.name].where])
                        more = True
        return r

    def sccs(self, nodes):
        nodes = set(nodes)
        index, low, comp = {}, {}, []
        stack, on = [], set()
        counter = [0]

        def strong(v):
            work = [(v, iter(sorted(self.edges.get(v, ()) & nodes)))]
            index[v] = low[v] = counter[0]
            counter[0] += 1
            stack.append(v)
            on.add(v)
            while work:
                v, it = work[-1]
                adv = False
                for w in it:
                    if w not in index:
                        index[w] = low[w] = counter[0]
                        counter[0] += 1
                        stack.append(w)
                        on.add(w)
                        work.append((w, iter(sorted(
                            self.edges.get(w, ()) & nodes))))
                        adv = True
                        break
                    elif w in on:
                        low[v] = min(low[v], index[w])
                if adv:
                    continue
                work.pop()
                if work:
                    u = work[-1][0]
                    low[u] = min(low[u], low[v])
                if low[v] == index[v]:
                    c = []
                    while True:
                        w = stack.pop()
                        on.discard(w)
                        c.append(w)
                        if w == v:
                            break
                    comp.append(sorted(c))
        for v in sorted(nodes):
            if v not in index:
                strong(v)
        out = []
        for c in comp:
            if len(c) > 1 or c[0] in self.edges.get(c[0], ()):
                out.append(c)
        return out
