"""Module-level table evaluation.

The repository keeps several dispatch tables as module-level values
(DT_Var.modifiers, DT_Var.special_formats, the type-predicate tables of
DT_In, ...).  How a table is *spelled* -- a literal, a literal re-mapped
with map/lambda or a comprehension, two literals merged with {**a, **b},
dict(pairs), updates after the definition -- is irrelevant to every
property; this evaluator executes the module-level statements that build
the named value over an abstract of "ordered entries" and hands the rules
the resulting ordered list of (key, value expression).

Entries:  ('item', expr)            plain sequence element
          ('pair', key, expr)       (key, value) tuple / dict entry
expr is an ast expression to be resolved with Model.resolve_name_expr.
"""
import ast


class NotATable(Exception):
    pass


def _funcname(model, m, expr):
    r = model.resolve_name_expr(m, expr)
    if r and r[0] == 'func':
        return r[1].name
    if r and r[0] == 'ext':
        return r[1].rsplit('.', 1)[-1]
    if r and r[0] == 'class':
        return r[1].name
    if isinstance(expr, ast.Name):
        return expr.id
    raise NotATable(f'name of {ast.unparse(expr)} unknown')


class _Ev:
    def __init__(self, model, m):
        self.model = model
        self.m = m
        self.env = {}

    # -------------------------------------------------------- statements
    def run(self, upto=None):
        for st in self.m.tree.body:
            self.stmt(st)
        return self.env

    def stmt(self, st):
        if isinstance(st, (ast.If, ast.Try)):
            for b in ([st.body, st.orelse] if isinstance(st, ast.If)
                      else [st.body]):
                for x in b:
                    self.stmt(x)
            return
        if isinstance(st, ast.Assign):
            try:
                v = self.ev(st.value, {})
            except NotATable:
                v = None
            for t in st.targets:
                if isinstance(t, ast.Name):
                    if v is not None:
                        self.env[t.id] = v
                    else:
                        self.env.pop(t.id, None)
                elif isinstance(t, ast.Subscript) and isinstance(
                        t.value, ast.Name) and t.value.id in self.env:
                    cur = self.env[t.value.id]
                    if cur[0] == 'dict' and isinstance(
                            t.slice, ast.Constant):
                        self._set(cur, t.slice.value, st.value)
                    else:
                        self.env.pop(t.value.id, None)
            return
        if isinstance(st, ast.AnnAssign) and isinstance(
                st.target, ast.Name) and st.value is not None:
            try:
                self.env[st.target.id] = self.ev(st.value, {})
            except NotATable:
                self.env.pop(st.target.id, None)
            return
        if isinstance(st, ast.AugAssign) and isinstance(
                st.target, ast.Name) and st.target.id in self.env:
            try:
                self.env[st.target.id] = self.ev(ast.BinOp(
                    left=st.target, op=st.op, right=st.value), {})
            except NotATable:
                self.env.pop(st.target.id, None)
            return
        if isinstance(st, ast.Expr) and isinstance(st.value, ast.Call) and \
                isinstance(st.value.func, ast.Attribute) and isinstance(
                    st.value.func.value, ast.Name) and \
                st.value.func.value.id in self.env:
            name = st.value.func.value.id
            cur = self.env[name]
            c = st.value
            try:
                if c.func.attr == 'update' and cur[0] == 'dict':
                    for a in c.args:
                        for e in self.as_dict(self.ev(a, {}))[1]:
                            self._set(cur, e[1], e[2])
                    for kw in c.keywords:
                        if kw.arg is None:
                            for e in self.as_dict(self.ev(kw.value, {}))[1]:
                                self._set(cur, e[1], e[2])
                        else:
                            self._set(cur, kw.arg, kw.value)
                elif c.func.attr == 'append' and cur[0] == 'seq' and \
                        len(c.args) == 1:
                    cur[1].append(self.entry(c.args[0], {}))
                elif c.func.attr == 'extend' and cur[0] == 'seq' and \
                        len(c.args) == 1:
                    cur[1].extend(self.ev(c.args[0], {})[1])
                elif c.func.attr in ('sort', 'reverse', 'insert', 'pop',
                                     'remove', 'clear', 'setdefault'):
                    self.env.pop(name, None)
            except NotATable:
                self.env.pop(name, None)

    @staticmethod
    def _set(cur, key, expr):
        for i, e in enumerate(cur[1]):
            if e[1] == key:
                cur[1][i] = ('pair', key, expr)
                return
        cur[1].append(('pair', key, expr))

    # ------------------------------------------------------- expressions
    def entry(self, e, bind):
        """one element of a sequence display"""
        if isinstance(e, ast.Name) and e.id in bind:
            return bind[e.id]
        if isinstance(e, ast.Tuple) and len(e.elts) == 2:
            k, v = e.elts
            ve = self.entry(v, bind)
            if ve[0] == 'pair':
                raise NotATable('nested pair')
            if isinstance(k, ast.Constant):
                return ('pair', k.value, ve[1])
            if isinstance(k, ast.Attribute) and k.attr == '__name__':
                ke = self.entry(k.value, bind)
                return ('pair', _funcname(self.model, self.m, ke[1]), ve[1])
            # a key computed from the bound constant key of the source
            # table (k.replace('-', '_'), k.lower(), prefix + k ...)
            cenv = {n: b[1].value for n, b in bind.items()
                    if b[0] == 'item' and isinstance(b[1], ast.Constant)}
            if cenv:
                from . import constfold
                try:
                    kv = constfold.fold(k, {}, dict(cenv))
                except constfold.NotConstant:
                    kv = None
                except Exception:
                    kv = None
                if isinstance(kv, (str, int, bytes)):
                    return ('pair', kv, ve[1])
            raise NotATable('pair key not constant')
        if isinstance(e, ast.Subscript) and isinstance(e.value, ast.Name) \
                and e.value.id in bind and isinstance(e.slice, ast.Constant):
            b = bind[e.value.id]
            if b[0] == 'pair' and e.slice.value in (0, 1):
                if e.slice.value == 1:
                    return ('item', b[2])
                return ('item', ast.Constant(value=b[1]))
        if isinstance(e, (ast.Name, ast.Attribute, ast.Constant,
                          ast.Lambda, ast.Call)):
            return ('item', e)
        raise NotATable(f'element {ast.unparse(e)[:40]}')

    def as_dict(self, v):
        if v[0] == 'dict':
            return v
        if v[0] == 'seq' and all(e[0] == 'pair' for e in v[1]):
            d = ('dict', [])
            for e in v[1]:
                self._set(d, e[1], e[2])
            return d
        raise NotATable('not a mapping')

    def bind_target(self, tgt, item):
        if isinstance(tgt, ast.Name):
            return {tgt.id: item}
        if isinstance(tgt, ast.Tuple) and len(tgt.elts) == 2 and all(
                isinstance(x, ast.Name) for x in tgt.elts) and \
                item[0] == 'pair':
            return {tgt.elts[0].id: ('item', ast.Constant(value=item[1])),
                    tgt.elts[1].id: ('item', item[2])}
        raise NotATable('comprehension target')

    def ev(self, e, bind):
        if isinstance(e, ast.Name):
            if e.id in self.env:
                v = self.env[e.id]
                return (v[0], list(v[1]))
            raise NotATable(f'{e.id} is not a table')
        if isinstance(e, (ast.Tuple, ast.List, ast.Set)):
            out = []
            for x in e.elts:
                if isinstance(x, ast.Starred):
                    out += self.ev(x.value, bind)[1]
                else:
                    out.append(self.entry(x, bind))
            return ('seq', out)
        if isinstance(e, ast.Dict):
            d = ('dict', [])
            for k, v in zip(e.keys, e.values):
                if k is None:
                    for x in self.as_dict(self.ev(v, bind))[1]:
                        self._set(d, x[1], x[2])
                elif isinstance(k, ast.Constant):
                    ve = self.entry(v, bind)
                    self._set(d, k.value, ve[1] if ve[0] == 'item'
                              else ve[2])
                elif isinstance(k, (ast.Name, ast.Call, ast.Attribute)):
                    # keyed by an object (a type, a function): the key is
                    # its spelling
                    ve = self.entry(v, bind)
                    self._set(d, ast.unparse(k), ve[1] if ve[0] == 'item'
                              else ve[2])
                else:
                    raise NotATable('dict key not constant')
            return d
        if isinstance(e, ast.BinOp) and isinstance(e.op, ast.Add):
            a, b = self.ev(e.left, bind), self.ev(e.right, bind)
            if a[0] == b[0] == 'seq':
                return ('seq', a[1] + b[1])
        if isinstance(e, ast.BinOp) and isinstance(e.op, ast.BitOr):
            a = self.as_dict(self.ev(e.left, bind))
            b = self.as_dict(self.ev(e.right, bind))
            d = ('dict', list(a[1]))
            for x in b[1]:
                self._set(d, x[1], x[2])
            return d
        if isinstance(e, (ast.ListComp, ast.GeneratorExp, ast.SetComp,
                          ast.DictComp)):
            if len(e.generators) != 1 or e.generators[0].ifs:
                raise NotATable('filtered / nested comprehension')
            g = e.generators[0]
            src = self.ev(g.iter, bind)
            out = ('dict', []) if isinstance(e, ast.DictComp) else \
                ('seq', [])
            for item in src[1]:
                b2 = dict(bind)
                b2.update(self.bind_target(g.target, item))
                if isinstance(e, ast.DictComp):
                    pe = self.entry(ast.Tuple(elts=[e.key, e.value],
                                              ctx=ast.Load()), b2)
                    self._set(out, pe[1], pe[2])
                else:
                    out[1].append(self.entry(e.elt, b2))
            return out
        if isinstance(e, ast.Call) and isinstance(e.func, ast.Name):
            fn = e.func.id
            if fn in ('list', 'tuple', 'sorted') and len(e.args) == 1 \
                    and not e.keywords and fn != 'sorted':
                v = self.ev(e.args[0], bind)
                if v[0] == 'dict':
                    return ('seq', [('item', ast.Constant(value=x[1]))
                                    for x in v[1]])
                return ('seq', v[1])
            if fn == 'dict':
                d = ('dict', [])
                for a in e.args:
                    for x in self.as_dict(self.ev(a, bind))[1]:
                        self._set(d, x[1], x[2])
                for kw in e.keywords:
                    if kw.arg is None:
                        for x in self.as_dict(self.ev(kw.value, bind))[1]:
                            self._set(d, x[1], x[2])
                    else:
                        self._set(d, kw.arg, kw.value)
                return d
            if fn == 'map' and len(e.args) == 2 and isinstance(
                    e.args[0], ast.Lambda) and \
                    len(e.args[0].args.args) == 1:
                lam = e.args[0]
                src = self.ev(e.args[1], bind)
                p = lam.args.args[0].arg
                out = []
                for item in src[1]:
                    b2 = dict(bind)
                    b2[p] = item
                    out.append(self.entry(lam.body, b2))
                return ('seq', out)
            if fn == 'zip' and len(e.args) == 2:
                a, b = self.ev(e.args[0], bind), self.ev(e.args[1], bind)
                if a[0] == b[0] == 'seq' and len(a[1]) == len(b[1]):
                    out = []
                    for x, y in zip(a[1], b[1]):
                        if x[0] == 'item' and isinstance(
                                x[1], ast.Constant) and y[0] == 'item':
                            out.append(('pair', x[1].value, y[1]))
                        else:
                            raise NotATable('zip of non-constant keys')
                    return ('seq', out)
        if isinstance(e, ast.Call) and isinstance(e.func, ast.Attribute) \
                and e.func.attr == 'fromkeys' and isinstance(
                    e.func.value, ast.Name) and e.func.value.id == 'dict' \
                and len(e.args) == 2:
            ks = self.ev(e.args[0], bind)
            d = ('dict', [])
            for x in ks[1]:
                if x[0] == 'item' and isinstance(x[1], ast.Constant):
                    self._set(d, x[1].value, e.args[1])
                elif x[0] == 'item':
                    self._set(d, ast.unparse(x[1]), e.args[1])
                else:
                    raise NotATable('fromkeys of pairs')
            return d
        if isinstance(e, ast.Call) and isinstance(e.func, ast.Attribute) \
                and e.func.attr == 'copy' and not e.args:
            return self.ev(e.func.value, bind)
        if isinstance(e, ast.Call) and isinstance(e.func, ast.Attribute) \
                and e.func.attr in ('items', 'keys', 'values') and \
                not e.args:
            d = self.as_dict(self.ev(e.func.value, bind))
            if e.func.attr == 'items':
                return ('seq', list(d[1]))
            if e.func.attr == 'keys':
                return ('seq', [('item', ast.Constant(value=x[1]))
                                for x in d[1]])
            return ('seq', [('item', x[2]) for x in d[1]])
        raise NotATable(f'{ast.unparse(e)[:50]}')


def module_tables(model, m):
    cached = getattr(m, '_dt_tables', None)
    if cached is None:
        cached = m._dt_tables = _Ev(model, m).run()
    return cached


def eval_expr(model, m, expr):
    """Evaluate an arbitrary expression at the end of module m as a table;
    None when it is not one."""
    ev = _Ev(model, m)
    ev.run()
    try:
        return ev.ev(expr, {})
    except NotATable:
        return None


def table(model, m, name):
    """('seq'|'dict', [entries]) of the module-level table `name`, or
    None when the value is not built from table operations."""
    return module_tables(model, m).get(name)


def func_entries(model, m, name):
    """Ordered [(key or None, expr, resolved)] of a table whose values are
    functions; None if the table is not understood."""
    t = table(model, m, name)
    if t is None:
        return None
    out = []
    for e in t[1]:
        key, expr = (None, e[1]) if e[0] == 'item' else (e[1], e[2])
        out.append((key, expr, model.resolve_name_expr(m, expr)
                    if isinstance(expr, (ast.Name, ast.Attribute))
                    else None))
    return out
