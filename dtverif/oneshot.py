"""One-shot iterators that outlive their first consumer.

A generator expression, `reversed()`, `map()`, `filter()`, `zip()`,
`iter()`, `enumerate()`, an itertools iterator or the result of a generator
function can be walked exactly once.  Stored in an attribute of an object
that is consulted again (a compiled tag shared by all renders, the per-loop
variable cache that memoises `previous-batches`) it answers the first
consultation and is empty ever after: rendering is no longer repeatable
(C17), two threads split the elements between them (C18), the second handled
exception of a dtml-try meets an exhausted handler table (C14), the second
look at the batch list finds no batches (C11).

`stores(model)` enumerates every attribute store and every container-entry
store in the shipped sources together with the verdict for its value:
None (re-iterable as far as the syntax shows) or the reason it is one-shot.
The value is followed through local names (all reaching definitions),
conditional expressions and chained assignments; a one-shot iterator that is
consumed at once (`tuple(map(...))`, `for x in reversed(...)`,
`SequenceFromIter(iter(obj))`) is not a store and never looked at.
"""
import ast

from .model import own_nodes

ITER_BUILTINS = {'reversed', 'map', 'filter', 'zip', 'iter', 'enumerate'}
ITERTOOLS = {'chain', 'islice', 'starmap', 'takewhile', 'dropwhile',
             'accumulate', 'compress', 'filterfalse', 'groupby', 'tee',
             'zip_longest', 'cycle', 'count', 'repeat', 'product',
             'permutations', 'combinations', 'pairwise', 'batched',
             'from_iterable'}


def _is_generator_fn(fi):
    for n in own_nodes(fi.node):
        if isinstance(n, (ast.Yield, ast.YieldFrom)):
            return True
    return False


def _shadowed(model, fi, name):
    """Is the builtin `name` rebound in the function or its module?"""
    if fi is not None:
        try:
            if model.local_defs(fi, name):
                return True
        except Exception:
            pass
        if name in fi.params():
            return True
        m = fi.module
    else:
        return False
    return name in m.funcs or name in m.classes or \
        name in m.imports or name in m.globals


def one_shot(model, fi, expr, _depth=0, _seen=None):
    """-> reason text if `expr` may evaluate to a one-shot iterator."""
    if expr is None or _depth > 6:
        return None
    _seen = _seen if _seen is not None else set()
    if isinstance(expr, ast.GeneratorExp):
        return 'a generator expression'
    if isinstance(expr, ast.NamedExpr):
        return one_shot(model, fi, expr.value, _depth + 1, _seen)
    if isinstance(expr, ast.IfExp):
        return one_shot(model, fi, expr.body, _depth + 1, _seen) or \
            one_shot(model, fi, expr.orelse, _depth + 1, _seen)
    if isinstance(expr, ast.BoolOp):
        for v in expr.values:
            why = one_shot(model, fi, v, _depth + 1, _seen)
            if why:
                return why
        return None
    if isinstance(expr, ast.Call):
        f = expr.func
        if isinstance(f, ast.Name):
            if f.id in ITER_BUILTINS and not _shadowed(model, fi, f.id):
                return f'the iterator returned by {f.id}()'
            imp = getattr(fi.module, 'imports', {}).get(f.id) \
                if fi is not None else None
            if imp and 'itertools' in str(imp) and f.id in ITERTOOLS:
                return f'the itertools.{f.id} iterator'
        if isinstance(f, ast.Attribute) and f.attr in ITERTOOLS:
            base = f.value
            while isinstance(base, ast.Attribute):
                base = base.value
            if isinstance(base, ast.Name) and base.id in (
                    'itertools', 'chain'):
                return f'the itertools.{f.attr} iterator'
        if fi is not None:
            try:
                targets = model.resolve_callee(f, fi)
            except Exception:
                targets = []
            for t in targets:
                if t[0] == 'func' and _is_generator_fn(t[1]) and not any(
                        'contextmanager' in ast.unparse(d)
                        for d in t[1].node.decorator_list):
                    return f'the generator returned by {t[1].where}'
        return None
    if isinstance(expr, ast.Name) and fi is not None:
        if (id(fi), expr.id) in _seen:
            return None
        _seen.add((id(fi), expr.id))
        try:
            defs = model.local_defs(fi, expr.id)
        except Exception:
            defs = []
        for d in defs:
            # model.local_defs: value nodes ('param' / tagged tuples for
            # unpacking, loop targets ... carry no verdict)
            if isinstance(d, ast.AST):
                why = one_shot(model, fi, d, _depth + 1, _seen)
                if why:
                    return why
        return None
    return None


def stores(model, funcs=None):
    """-> list of (fi, kind, target node, stmt, reason or None) for every
    attribute store (`x.a = v`) and entry store (`x[k] = v`) in `funcs`
    (default: all shipped functions)."""
    out = []
    for fi in (funcs if funcs is not None else model.all_funcs()):
        for n in own_nodes(fi.node):
            if isinstance(n, ast.Assign):
                targets, value = n.targets, n.value
            elif isinstance(n, ast.AnnAssign) and n.value is not None:
                targets, value = [n.target], n.value
            else:
                continue
            for t in targets:
                if isinstance(t, ast.Attribute):
                    kind = 'attribute'
                elif isinstance(t, ast.Subscript):
                    kind = 'entry'
                else:
                    continue
                out.append((fi, kind, t, n, one_shot(model, fi, value)))
        # a container literal / call argument is not a store; but a value
        # handed to setdefault / update / append of an attribute is
        for n in own_nodes(fi.node):
            if isinstance(n, ast.Call) and \
                    isinstance(n.func, ast.Attribute) and \
                    n.func.attr in ('append', 'setdefault', 'insert') and \
                    n.args:
                recv = n.func.value
                if isinstance(recv, ast.Attribute) or (
                        isinstance(recv, ast.Subscript)):
                    out.append((fi, 'element', n.func, n,
                                one_shot(model, fi, n.args[-1])))
    return out


CONTROL_SRC = '''
class T:
    def __init__(self, names, table):
        picked = (f for n, f in table if n in names)
        self.fns = picked
        self.ok = tuple(f for n, f in table if n in names)

    def memo(self, data, r):
        data['batches'] = r = reversed(r)
        for x in reversed(r):
            pass
        return r
'''


def control(model_cls):
    """The embedded snippet must yield exactly the two one-shot stores."""
    m = model_cls(sources={'src/DocumentTemplate/zz_oneshot_control.py':
                           CONTROL_SRC}, root=None)
    hits = [(fi.where, kind) for fi, kind, t, n, why in stores(m) if why]
    return sorted(hits) == [('zz_oneshot_control:T.__init__', 'attribute'),
                            ('zz_oneshot_control:T.memo', 'entry')]


def fill_rule(r, model, select, floor, what):
    """Common body of the per-property rules: every store `select` accepts
    is an instance; a one-shot value is a finding.  `select(fi, kind)`."""
    from .core import AnalysisError
    from .model import Model
    r.control('control: stored generator expression / reversed()',
              control(Model))
    n = 0
    for fi, kind, target, stmt, why in stores(model):
        if not select(fi, kind):
            continue
        n += 1
        r.instance(fi.where, target, 'one-shot' if why else 're-iterable')
        if why:
            r.finding(fi.where, stmt,
                      f'{why} is stored in {what}: it answers the first '
                      'consultation only and is empty (or half consumed) '
                      'for every later one', node=stmt, ctx=fi)
    if n < floor:
        raise AnalysisError(f'{r.rule}: only {n} stores examined, floor '
                            f'is {floor}')
    return r
