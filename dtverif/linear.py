"""E6 helpers: linear normal forms of integer expressions and a small
alpha-renaming twin comparator."""
import ast
import copy

from .core import norm


class NonLinear(Exception):
    pass


def linear(e, subst=None, _depth=0):
    """-> dict {symbol: coeff, '': const}.  Symbols are names or normalised
    texts of calls/attributes.  `subst` maps a name to an expression to be
    expanded (single-assignment locals such as first = start - 1)."""
    subst = subst or {}
    if _depth > 8:
        raise NonLinear('depth')
    if isinstance(e, ast.Constant) and isinstance(e.value, (int, float)) \
            and not isinstance(e.value, bool):
        return {'': e.value}
    if isinstance(e, ast.Name):
        if e.id in subst:
            return linear(subst[e.id], {k: v for k, v in subst.items()
                                        if k != e.id}, _depth + 1)
        return {e.id: 1}
    if isinstance(e, ast.UnaryOp) and isinstance(e.op, (ast.USub,
                                                         ast.UAdd)):
        v = linear(e.operand, subst, _depth + 1)
        if isinstance(e.op, ast.USub):
            return {k: -c for k, c in v.items()}
        return v
    if isinstance(e, ast.BinOp) and isinstance(e.op, (ast.Add, ast.Sub)):
        a = linear(e.left, subst, _depth + 1)
        b = linear(e.right, subst, _depth + 1)
        out = dict(a)
        sign = 1 if isinstance(e.op, ast.Add) else -1
        for k, c in b.items():
            out[k] = out.get(k, 0) + sign * c
        return {k: c for k, c in out.items() if c != 0 or k == ''}
    if isinstance(e, ast.BinOp) and isinstance(e.op, ast.Mult):
        a = linear(e.left, subst, _depth + 1)
        b = linear(e.right, subst, _depth + 1)
        if set(a) <= {''}:
            return {k: c * a.get('', 0) for k, c in b.items()}
        if set(b) <= {''}:
            return {k: c * b.get('', 0) for k, c in a.items()}
        raise NonLinear(norm(e))
    if isinstance(e, (ast.Call, ast.Attribute, ast.Subscript)):
        return {norm(e): 1}
    raise NonLinear(norm(e))


def lin_eq(a, b, subst=None):
    try:
        la, lb = linear(a, subst), linear(b, subst)
    except NonLinear:
        return False
    keys = set(la) | set(lb)
    return all(la.get(k, 0) == lb.get(k, 0) for k in keys)


def lin_str(e, subst=None):
    try:
        v = linear(e, subst)
    except NonLinear:
        return '?' + norm(e)
    parts = []
    for k in sorted(k for k in v if k):
        c = v[k]
        parts.append(('+' if c > 0 else '-') +
                     (str(abs(c)) + '*' if abs(c) != 1 else '') + k)
    c = v.get('', 0)
    if c or not parts:
        parts.append(('+' if c >= 0 else '-') + str(abs(c)))
    return ''.join(parts)


def parse_expr(text):
    return ast.parse(text, mode='eval').body


def single_assignments(model, fi):
    """name -> value expr for locals assigned exactly once from a linear
    expression over other names."""
    out = {}
    table = getattr(fi, '_defs', None)
    if table is None:
        table = fi._defs = model._build_defs(fi)
    for name, defs in table.items():
        if len(defs) == 1 and not isinstance(defs[0], (str, tuple)):
            try:
                linear(defs[0])
                out[name] = defs[0]
            except NonLinear:
                pass
    return out


class _Rename(ast.NodeTransformer):
    def __init__(self, mp):
        self.mp = mp

    def visit_Name(self, node):
        return ast.copy_location(
            ast.Name(id=self.mp.get(node.id, node.id), ctx=node.ctx), node)


def canon(stmts, mapping=None):
    """ast.dump of statements after renaming names through `mapping`."""
    out = []
    for s in stmts:
        s2 = _Rename(mapping or {}).visit(copy.deepcopy(s))
        out.append(ast.dump(s2))
    return out
