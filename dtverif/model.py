"""E0 -- source model of /repo/src: modules, classes (with in-repo MRO),
functions (with qualified names and parent links), imports, constant folding,
callee resolution.  Nothing is imported from the repository; everything is
``ast`` over the files found on this run."""
import ast
import os

from .core import REPO_DIR
from .core import AnalysisError
from .core import norm


SRC_SUBDIR = 'src'
SHORT = {}


def _is_test_path(rel):
    parts = rel.split(os.sep)
    return 'tests' in parts or parts[-1] == 'tests.py' or \
        parts[-1].startswith('test_')


class ModuleInfo:
    def __init__(self, name, relpath, source, inline=False, cm_gens=None):
        self.name = name                 # DocumentTemplate.DT_In
        self.short = name.split('.')[-1] if not name.endswith('__init__') \
            else name
        self.relpath = relpath
        self.source = source
        self.tree = ast.parse(source, filename=relpath)
        from .normalise import desugar_with
        from .normalise import inline_new_helpers
        from .normalise import resugar_locks
        self.resugared_locks = resugar_locks(self.tree)
        self.cm_classes = desugar_with(self.tree)
        # N1b: `with` over contextlib.contextmanager generators (model wide)
        from .normalise import desugar_cm_generators
        self.cm_funcs = set(cm_gens or ())
        desugar_cm_generators(self.tree, cm_gens)
        from .normalise import desugar_first_match
        self.first_match = desugar_first_match(self.tree)
        from .normalise import expand_constant_kwargs
        self.expanded_kwargs = expand_constant_kwargs(self.tree)
        short = name.split('.')[-1] if not relpath.endswith(
            '__init__.py') else name
        # N2 (inlining of helpers that are new w.r.t. the reference tree)
        # is an opt-in view: rules that follow paths through one function
        # ask for it (Model.inlined_view()), pattern rules use the plain
        # view and follow helpers themselves (Model.closure)
        self.inlined = inline_new_helpers(self.tree, short) if inline else 0
        if inline:
            from .normalise import unroll_constant_loops
            self.unrolled = unroll_constant_loops(self.tree)
        self.imports = {}                # local name -> (module, attr|None)
        self.funcs = {}                  # qualname -> FuncInfo
        self.classes = {}                # name -> ClassInfo
        self.globals = {}                # name -> [value nodes] (top level)
        self.module = self

    def __repr__(self):
        return f'<Module {self.name}>'


class ClassInfo:
    def __init__(self, module, node, qual):
        self.module = module
        self.node = node
        self.name = qual
        self.methods = {}                # name -> FuncInfo (own)
        self.attrs = {}                  # name -> value node (own, class lvl)
        self.base_exprs = list(node.bases)
        self.bases = []                  # resolved ClassInfo | str

    def __repr__(self):
        return f'<Class {self.module.short}:{self.name}>'


class FuncInfo:
    def __init__(self, module, node, qual, cls=None, parent=None):
        self.module = module
        self.node = node
        self.qualname = qual
        self.cls = cls
        self.parent = parent             # enclosing FuncInfo (closures)
        self.relpath = module.relpath
        # method of a context-manager class whose every use was rewritten
        # to try/finally (normalise.N1): judged at the use sites
        self.cm_method = (cls is not None and cls.name in getattr(
            module, 'cm_classes', ())) or (
            node.name in getattr(module, 'cm_funcs', ()) and any(
                'contextmanager' in ast.unparse(d)
                for d in node.decorator_list))

    @property
    def where(self):
        return f'{self.module.short}:{self.qualname}'

    @property
    def name(self):
        return self.node.name

    def params(self):
        a = self.node.args
        return [x.arg for x in a.posonlyargs + a.args + a.kwonlyargs]

    def __repr__(self):
        return f'<Func {self.where}>'


def set_parents(tree):
    for node in ast.walk(tree):
        for ch in ast.iter_child_nodes(node):
            ch._dt_parent = node
    tree._dt_parent = None


def parent(node):
    return getattr(node, '_dt_parent', None)


def ancestors(node):
    p = parent(node)
    while p is not None:
        yield p
        p = parent(p)


def own_nodes(fn_node, include_nested=False):
    """All nodes of a function body, not descending into nested
    function/class/lambda bodies (their headers' defaults are included)."""
    stack = list(reversed(fn_node.body))
    while stack:
        n = stack.pop()
        yield n
        if isinstance(n, (ast.FunctionDef, ast.AsyncFunctionDef, ast.Lambda,
                          ast.ClassDef)) and not include_nested:
            continue
        stack.extend(reversed(list(ast.iter_child_nodes(n))))


def enclosing_func_node(node):
    for a in ancestors(node):
        if isinstance(a, (ast.FunctionDef, ast.AsyncFunctionDef)):
            return a
    return None


class Model:
    """Parsed view of the shipped packages of the repository."""

    inline = False
    _inlined_view = None
    cm_gens = {}

    def __init__(self, sources=None, root=None, inline=False):
        self.inline = inline
        self._inlined_view = None
        self.root = root or REPO_DIR
        self.modules = {}            # short name -> ModuleInfo
        self.by_full = {}
        self.stats = {}
        if sources is None:
            sources = self.read_sources(self.root)
        self.sources = sources
        self.cm_gens = {}
        if any('contextmanager' in src for src in sources.values()):
            from .normalise import collect_cm_generators
            trees = []
            for rel, src in sorted(sources.items()):
                try:
                    trees.append(ast.parse(src))
                except SyntaxError as e:
                    raise AnalysisError(f'{rel} does not parse: {e}')
            self.cm_gens = collect_cm_generators(trees)
        for rel, src in sorted(sources.items()):
            self._add_module(rel, src)
        self._link()

    # ------------------------------------------------------------ loading
    @staticmethod
    def read_sources(root):
        src_root = os.path.join(root, SRC_SUBDIR)
        if not os.path.isdir(src_root):
            raise AnalysisError(f'no source directory {src_root}')
        out = {}
        for dp, dns, fns in os.walk(src_root):
            dns[:] = sorted(d for d in dns if d != '__pycache__')
            for fn in sorted(fns):
                if not fn.endswith('.py'):
                    continue
                full = os.path.join(dp, fn)
                rel = os.path.relpath(full, root)
                if _is_test_path(os.path.relpath(full, src_root)):
                    continue
                with open(full, encoding='utf-8') as fh:
                    out[rel] = fh.read()
        if len(out) < 15:
            raise AnalysisError(
                f'only {len(out)} source files under {src_root}')
        return out

    def _add_module(self, rel, src):
        parts = rel.split(os.sep)
        assert parts[0] == SRC_SUBDIR
        modparts = parts[1:]
        modparts[-1] = modparts[-1][:-3]
        if modparts[-1] == '__init__':
            full = '.'.join(modparts[:-1])
            short = full
        else:
            full = '.'.join(modparts)
            short = modparts[-1]
        try:
            m = ModuleInfo(full, rel, src, inline=self.inline,
                           cm_gens=self.cm_gens)
        except SyntaxError as e:
            raise AnalysisError(f'{rel} does not parse: {e}')
        m.short = short
        set_parents(m.tree)
        self.modules[short] = m
        self.by_full[full] = m
        self._index_module(m)

    def _index_module(self, m):
        def visit(body, prefix, cls, pfunc):
            for n in body:
                if isinstance(n, (ast.FunctionDef, ast.AsyncFunctionDef)):
                    q = prefix + n.name
                    fi = FuncInfo(m, n, q, cls=cls, parent=pfunc)
                    n._dt_func = fi
                    m.funcs[q] = fi
                    if cls is not None and pfunc is None:
                        cls.methods[n.name] = fi
                    # nested defs anywhere in the body
                    for sub in own_nodes(n):
                        if isinstance(sub, (ast.FunctionDef,
                                            ast.AsyncFunctionDef)):
                            q2 = q + '.' + sub.name
                            fi2 = FuncInfo(m, sub, q2, cls=cls, parent=fi)
                            sub._dt_func = fi2
                            m.funcs[q2] = fi2
                elif isinstance(n, ast.ClassDef):
                    q = prefix + n.name
                    ci = ClassInfo(m, n, q)
                    n._dt_class = ci
                    m.classes[q] = ci
                    for st in n.body:
                        if isinstance(st, ast.Assign):
                            for t in st.targets:
                                for nm in _target_names(t):
                                    ci.attrs[nm] = st.value
                    visit(n.body, q + '.', ci, None)
                elif isinstance(n, (ast.If, ast.Try)):
                    # conditional top-level definitions
                    for sub in _stmt_lists(n):
                        visit(sub, prefix, cls, pfunc)
        visit(m.tree.body, '', None, None)
        # imports and globals at module level (including try/if blocks)
        for n in _toplevel_stmts(m.tree.body):
            if isinstance(n, ast.Import):
                for a in n.names:
                    m.imports[a.asname or a.name.split('.')[0]] = (
                        a.name if a.asname else a.name.split('.')[0], None)
            elif isinstance(n, ast.ImportFrom):
                base = n.module or ''
                if n.level:
                    pk = m.name.split('.')
                    if not m.relpath.endswith('__init__.py'):
                        pk = pk[:-1]
                    pk = pk[:len(pk) - (n.level - 1)]
                    base = '.'.join(pk + ([n.module] if n.module else []))
                for a in n.names:
                    m.imports[a.asname or a.name] = (base, a.name)
            elif isinstance(n, ast.Assign):
                for t in n.targets:
                    for nm in _target_names(t):
                        m.globals.setdefault(nm, []).append(n.value)
            elif isinstance(n, ast.AnnAssign) and n.value is not None:
                for nm in _target_names(n.target):
                    m.globals.setdefault(nm, []).append(n.value)

    def _link(self):
        nf = 0
        for m in self.modules.values():
            nf += len(m.funcs)
            for ci in m.classes.values():
                ci.bases = [self._resolve_class_expr(m, b)
                            for b in ci.base_exprs]
        self.stats['functions'] = nf
        self.stats['modules'] = len(self.modules)
        self.stats['classes'] = sum(len(m.classes)
                                    for m in self.modules.values())

    def _resolve_class_expr(self, m, expr):
        r = self.resolve_name_expr(m, expr)
        if r and r[0] == 'class':
            return r[1]
        return norm(expr)

    # ------------------------------------------------------------ lookup
    def module(self, short):
        m = self.modules.get(short)
        if m is None:
            raise AnalysisError(f'module {short} not found (anchor vanished)')
        return m

    def func(self, short, qual):
        m = self.module(short)
        f = m.funcs.get(qual)
        if f is None:
            # inherited method?
            if '.' in qual:
                cname, meth = qual.rsplit('.', 1)
                ci = m.classes.get(cname)
                if ci is not None:
                    f = self.lookup_method(ci, meth)
        if f is None:
            raise AnalysisError(
                f'function {short}:{qual} not found (anchor vanished)')
        return f

    def find_func(self, short, qual):
        m = self.modules.get(short)
        return m.funcs.get(qual) if m else None

    def cls(self, short, name):
        m = self.module(short)
        c = m.classes.get(name)
        if c is None:
            raise AnalysisError(
                f'class {short}:{name} not found (anchor vanished)')
        return c

    def inlined_view(self):
        """The same sources with helpers that are new w.r.t. the reference
        tree inlined at their call sites (normalise.N2)."""
        if self.inline:
            return self
        if self._inlined_view is None:
            self._inlined_view = Model(sources=self.sources, root=self.root,
                                       inline=True)
            self._inlined_view._plain = self
        return self._inlined_view

    _plain = None

    def plain_view(self):
        """The sources as written (helpers not inlined)."""
        if not self.inline:
            return self
        if self._plain is None:
            self._plain = Model(sources=self.sources, root=self.root)
            self._plain._inlined_view = self
        return self._plain

    def closure(self, fi, depth=3):
        """fi plus the helpers it calls, transitively: methods of its own
        class called through `self.` and plain functions of its module
        (the unit a maintainer gets by extracting helpers from fi)."""
        out, todo = [fi], [(fi, 0)]
        while todo:
            f, d = todo.pop()
            if d >= depth:
                continue
            for c in own_nodes(f.node):
                if not isinstance(c, ast.Call):
                    continue
                h = None
                if isinstance(c.func, ast.Attribute) and \
                        isinstance(c.func.value, ast.Name) and \
                        c.func.value.id == 'self' and f.cls is not None:
                    h = self.lookup_method(f.cls, c.func.attr)
                    if h is not None and h.module is not fi.module:
                        h = None
                elif isinstance(c.func, ast.Name):
                    g = fi.module.funcs.get(c.func.id)
                    if g is not None and g.cls is None and \
                            not self.local_defs(f, c.func.id):
                        h = g
                    # nested function of f
                    for q, g2 in fi.module.funcs.items():
                        if g2.parent is f and g2.name == c.func.id:
                            h = g2
                if h is not None and h not in out:
                    out.append(h)
                    todo.append((h, d + 1))
        return out

    def helper_calls(self, clo, g):
        """Call sites of helper g inside the functions of clo:
        [(caller, call node, {parameter name: argument expression})]."""
        out = []
        params = g.params()
        for h in clo:
            for c in own_nodes(h.node):
                if not isinstance(c, ast.Call):
                    continue
                fn = c.func
                bound = False
                if isinstance(fn, ast.Name) and fn.id == g.node.name and \
                        g.cls is None:
                    pass
                elif isinstance(fn, ast.Attribute) and \
                        fn.attr == g.node.name and g.cls is not None and \
                        isinstance(fn.value, ast.Name) and \
                        fn.value.id == 'self':
                    bound = True
                else:
                    continue
                ps = params[1:] if bound and params else params
                m = {}
                if any(isinstance(a, ast.Starred) for a in c.args):
                    out.append((h, c, None))
                    continue
                for p_, a in zip(ps, c.args):
                    m[p_] = a
                for kw in c.keywords:
                    if kw.arg is not None:
                        m[kw.arg] = kw.value
                if bound and params:
                    m[params[0]] = fn.value
                out.append((h, c, m))
        return out

    def closure_nodes(self, fi, depth=3):
        for f in self.closure(fi, depth):
            for n in own_nodes(f.node):
                yield n

    def all_funcs(self):
        for m in self.modules.values():
            yield from m.funcs.values()

    def all_classes(self):
        for m in self.modules.values():
            yield from m.classes.values()

    def mro(self, ci):
        """Linearised in-repo ancestors (simple DFS left-to-right, adequate
        for the single/mixin inheritance used here)."""
        out = []
        seen = set()

        def rec(c):
            if not isinstance(c, ClassInfo) or id(c) in seen:
                return
            seen.add(id(c))
            out.append(c)
            for b in c.bases:
                rec(b)
        rec(ci)
        return out

    def subclasses(self, ci):
        out = []
        for c in self.all_classes():
            if c is not ci and ci in self.mro(c):
                out.append(c)
        return out

    def lookup_method(self, ci, name):
        for c in self.mro(ci):
            if name in c.methods:
                return c.methods[name]
        return None

    def lookup_class_attr(self, ci, name):
        for c in self.mro(ci):
            if name in c.attrs:
                return c, c.attrs[name]
        return None, None

    # -------------------------------------------------------- resolution
    def resolve_global(self, m, name, _depth=0):
        """-> ('func', FuncInfo) | ('class', ClassInfo) | ('ext', dotted)
             | ('value', [nodes], module) | None"""
        if _depth > 6:
            return None
        if name in m.funcs and '.' not in name:
            return ('func', m.funcs[name])
        if name in m.classes:
            return ('class', m.classes[name])
        if name in m.globals:
            vals = m.globals[name]
            # simple alias chains  X = Y
            if len(vals) == 1 and isinstance(vals[0], ast.Name):
                r = self.resolve_global(m, vals[0].id, _depth + 1)
                if r:
                    return r
            return ('value', vals, m)
        if name in m.imports:
            mod, attr = m.imports[name]
            tm = self.by_full.get(mod)
            if attr is None:
                if tm is not None:
                    return ('module', tm)
                return ('ext', mod)
            if tm is not None:
                r = self.resolve_global(tm, attr, _depth + 1)
                if r:
                    return r
                sub = self.by_full.get(mod + '.' + attr)
                if sub is not None:
                    return ('module', sub)
                return None
            sub = self.by_full.get(mod + '.' + attr)
            if sub is not None:
                return ('module', sub)
            return ('ext', f'{mod}.{attr}')
        return None

    def resolve_name_expr(self, m, expr):
        """Resolve a Name / dotted Attribute expression at module scope."""
        if isinstance(expr, ast.Name):
            return self.resolve_global(m, expr.id)
        if isinstance(expr, ast.Attribute):
            base = self.resolve_name_expr(m, expr.value)
            if base is None:
                return None
            if base[0] == 'module':
                return self.resolve_global(base[1], expr.attr)
            if base[0] == 'ext':
                return ('ext', base[1] + '.' + expr.attr)
            if base[0] == 'class':
                f = self.lookup_method(base[1], expr.attr)
                if f:
                    return ('func', f)
        return None

    def local_defs(self, fi, name):
        """Value nodes assigned to local `name` in function fi (its own
        body; parameters are reported as the string 'param')."""
        table = getattr(fi, '_defs', None)
        if table is None:
            table = fi._defs = self._build_defs(fi)
        return table.get(name, [])

    def _build_defs(self, fi):
        table = {}

        def add(name, v):
            table.setdefault(name, []).append(v)
        a = fi.node.args
        for p in a.posonlyargs + a.args + a.kwonlyargs:
            add(p.arg, 'param')
        if a.vararg:
            add(a.vararg.arg, 'param')
        if a.kwarg:
            add(a.kwarg.arg, 'param')
        for n in own_nodes(fi.node):
            if isinstance(n, ast.Assign):
                for t in n.targets:
                    if isinstance(t, ast.Name):
                        add(t.id, n.value)
                    elif isinstance(t, (ast.Tuple, ast.List)):
                        for nm in _target_names(t):
                            add(nm, ('unpack', n.value))
            elif isinstance(n, ast.AnnAssign) and n.value is not None:
                if isinstance(n.target, ast.Name):
                    add(n.target.id, n.value)
            elif isinstance(n, ast.AugAssign):
                if isinstance(n.target, ast.Name):
                    add(n.target.id, ('aug', n))
            elif isinstance(n, (ast.For, ast.comprehension)):
                for nm in _target_names(n.target):
                    add(nm, ('iter', n.iter))
            elif isinstance(n, ast.ExceptHandler) and n.name:
                add(n.name, ('except', n))
            elif isinstance(n, (ast.FunctionDef, ast.AsyncFunctionDef)):
                add(n.name, ('def', n))
            elif isinstance(n, ast.With):
                for it in n.items:
                    if it.optional_vars is not None:
                        for nm in _target_names(it.optional_vars):
                            add(nm, ('with', it.context_expr))
            elif isinstance(n, ast.NamedExpr):
                add(n.target.id, n.value)
            elif isinstance(n, (ast.Import, ast.ImportFrom)):
                for al in n.names:
                    add(al.asname or al.name.split('.')[0], ('import', n))
        return table

    def param_default(self, fi, name):
        a = fi.node.args
        pos = a.posonlyargs + a.args
        defaults = a.defaults
        off = len(pos) - len(defaults)
        for i, p in enumerate(pos):
            if p.arg == name and i >= off:
                return defaults[i - off]
        for p, d in zip(a.kwonlyargs, a.kw_defaults):
            if p.arg == name:
                return d
        return None

    def resolve_callee(self, call_func, fi, _depth=0):
        """Resolve the callee expression of a call inside function `fi`.
        Returns a list of targets: ('func', FuncInfo) | ('class', ClassInfo)
        | ('ext', dotted) | ('method', attrname, receiver_expr) |
        ('unknown', text)."""
        m = fi.module if fi is not None else None
        e = call_func
        if _depth > 5:
            return [('unknown', norm(e))]
        if isinstance(e, ast.Name):
            # local definitions first (closures look at the parents too)
            f = fi
            while f is not None:
                defs = self.local_defs(f, e.id)
                if defs:
                    outs = []
                    for d in defs:
                        if d == 'param':
                            dv = self.param_default(f, e.id)
                            if dv is not None:
                                outs += self.resolve_callee(
                                    dv, f.parent or _ModuleCtx(f.module),
                                    _depth + 1)
                            else:
                                outs.append(('unknown', e.id))
                        elif isinstance(d, tuple):
                            if d[0] == 'def':
                                outs.append(('func', d[1]._dt_func))
                            else:
                                outs.append(('unknown', e.id))
                        else:
                            outs += self.resolve_callee(d, f, _depth + 1)
                    return outs
                f = f.parent
            r = self.resolve_global(m, e.id) if m else None
            if r is None:
                if e.id in _BUILTINS:
                    return [('ext', 'builtins.' + e.id)]
                return [('unknown', e.id)]
            if r[0] in ('func', 'class', 'ext'):
                return [r]
            if r[0] == 'value':
                outs = []
                for v in r[1]:
                    outs += self.resolve_callee(v, _ModuleCtx(r[2]),
                                                _depth + 1)
                return outs
            return [('unknown', e.id)]
        if isinstance(e, ast.Attribute):
            # self.method
            if isinstance(e.value, ast.Name) and e.value.id == 'self' \
                    and fi is not None and getattr(fi, 'cls', None):
                outs = []
                f = self.lookup_method(fi.cls, e.attr)
                if f:
                    outs.append(('func', f))
                for sc in self.subclasses(fi.cls):
                    if e.attr in sc.methods:
                        outs.append(('func', sc.methods[e.attr]))
                if outs:
                    return outs
                c, v = self.lookup_class_attr(fi.cls, e.attr)
                if v is not None:
                    return self.resolve_callee(v, _ModuleCtx(c.module),
                                               _depth + 1)
                return [('method', e.attr, e.value)]
            r = self.resolve_name_expr(m, e) if m else None
            if r and r[0] in ('func', 'class', 'ext'):
                return [r]
            return [('method', e.attr, e.value)]
        if isinstance(e, ast.Lambda):
            return [('lambda', e)]
        return [('unknown', norm(e))]

    def callee_names(self, call, fi):
        """Convenience: set of dotted names / where-strings for a call."""
        out = set()
        for t in self.resolve_callee(call.func, fi):
            if t[0] == 'func':
                out.add(t[1].where)
            elif t[0] == 'class':
                out.add(f'{t[1].module.short}:{t[1].name}')
            elif t[0] == 'ext':
                out.add(t[1])
            elif t[0] == 'method':
                out.add('.' + t[1])
            else:
                out.add('?' + str(t[1]))
        return out

    # --------------------------------------------------- constant folding
    def regex_of(self, expr, fi=None, m=None, _depth=0):
        """(pattern, flags, re.compile call) of an expression denoting a
        compiled regular expression: re.compile(<const>, flags) itself, or
        a local / module-level name bound to one.  None when unknown."""
        import re as _re
        m = m or (fi.module if fi is not None else None)
        if _depth > 4 or expr is None:
            return None
        if isinstance(expr, ast.Call) and norm(expr.func) in (
                're.compile', 'compile') and expr.args:
            ok, pat = self.fold(expr.args[0], fi, m)
            if not ok or not isinstance(pat, str):
                return None
            flags = 0
            for a in expr.args[1:] + [k.value for k in expr.keywords]:
                for x in ast.walk(a):
                    if isinstance(x, ast.Attribute) and x.attr.isupper() \
                            and hasattr(_re, x.attr):
                        flags |= int(getattr(_re, x.attr))
            return pat, flags, expr
        if isinstance(expr, ast.Name):
            if fi is not None and not isinstance(fi, _ModuleCtx):
                defs = [d for d in self.local_defs(fi, expr.id)]
                if defs:
                    if len(defs) == 1 and isinstance(defs[0], ast.AST):
                        return self.regex_of(defs[0], fi, m, _depth + 1)
                    if defs == ['param']:
                        return self.regex_of(
                            self.param_default(fi, expr.id), None, m,
                            _depth + 1)
                    return None
            vals = m.globals.get(expr.id, []) if m is not None else []
            if len(vals) == 1:
                return self.regex_of(vals[0], None, m, _depth + 1)
        return None

    def regex_method_of(self, expr, fi=None, m=None, _depth=0):
        """(method name, regex_of the pattern object) for an expression
        denoting a bound method of a compiled pattern -- `RX.search`,
        a parameter whose default is one, a module-level name bound to
        one.  None when it is not."""
        m = m or (fi.module if fi is not None else None)
        if _depth > 4 or expr is None:
            return None
        if isinstance(expr, ast.Attribute):
            rx = self.regex_of(expr.value, fi, m)
            if rx is not None:
                return expr.attr, rx
            return None
        if isinstance(expr, ast.Name):
            if fi is not None and not isinstance(fi, _ModuleCtx):
                defs = self.local_defs(fi, expr.id)
                if defs:
                    if defs == ['param']:
                        return self.regex_method_of(
                            self.param_default(fi, expr.id), None, m,
                            _depth + 1)
                    if len(defs) == 1 and isinstance(defs[0], ast.AST):
                        return self.regex_method_of(defs[0], fi, m,
                                                    _depth + 1)
                    return None
            vals = m.globals.get(expr.id, []) if m is not None else []
            if len(vals) == 1:
                return self.regex_method_of(vals[0], None, m, _depth + 1)
        return None

    def returned_regex(self, fi):
        """regex_of the value a function returns (all returns agree)."""
        found = []
        for n in own_nodes(fi.node):
            if isinstance(n, ast.Return) and n.value is not None:
                found.append(self.regex_of(n.value, fi))
        if not found or any(f is None for f in found) or \
                len({f[:2] for f in found}) != 1:
            return None
        return found[0]

    def fold(self, expr, fi=None, m=None, _depth=0):
        """Fold a constant expression (str/bytes/int/tuple/list/dict of
        constants, + on strings/tuples, names bound once to constants).
        Returns (True, value) or (False, None)."""
        m = m or (fi.module if fi is not None else None)
        if _depth > 8:
            return False, None
        if isinstance(expr, ast.Constant):
            return True, expr.value
        if isinstance(expr, (ast.Tuple, ast.List)):
            vals = []
            for e in expr.elts:
                ok, v = self.fold(e, fi, m, _depth + 1)
                if not ok:
                    return False, None
                vals.append(v)
            return True, tuple(vals) if isinstance(expr, ast.Tuple) else vals
        if isinstance(expr, ast.Dict):
            d = {}
            for k, v in zip(expr.keys, expr.values):
                if k is None:
                    return False, None
                ok1, kv = self.fold(k, fi, m, _depth + 1)
                ok2, vv = self.fold(v, fi, m, _depth + 1)
                if not (ok1 and ok2):
                    return False, None
                try:
                    d[kv] = vv
                except TypeError:
                    return False, None
            return True, d
        if isinstance(expr, ast.BinOp) and isinstance(expr.op, (ast.Add,
                                                                 ast.Mult)):
            ok1, a = self.fold(expr.left, fi, m, _depth + 1)
            ok2, b = self.fold(expr.right, fi, m, _depth + 1)
            if ok1 and ok2:
                try:
                    return True, (a + b if isinstance(expr.op, ast.Add)
                                  else a * b)
                except Exception:
                    return False, None
            return False, None
        if isinstance(expr, ast.UnaryOp) and isinstance(expr.op, ast.USub):
            ok, v = self.fold(expr.operand, fi, m, _depth + 1)
            if ok and isinstance(v, (int, float)):
                return True, -v
        if isinstance(expr, ast.JoinedStr):
            parts = []
            for v in expr.values:
                if isinstance(v, ast.Constant):
                    parts.append(v.value)
                else:
                    return False, None
            return True, ''.join(parts)
        if isinstance(expr, ast.Name):
            f = fi
            while f is not None and isinstance(f, FuncInfo):
                defs = self.local_defs(f, expr.id)
                if defs:
                    if len(defs) == 1 and not isinstance(defs[0],
                                                         (str, tuple)):
                        return self.fold(defs[0], f, m, _depth + 1)
                    if len(defs) == 1 and defs[0] == 'param':
                        dv = self.param_default(f, expr.id)
                        if dv is not None:
                            return self.fold(dv, None, f.module, _depth + 1)
                    return False, None
                f = f.parent
            if m is not None:
                r = self.resolve_global(m, expr.id)
                if r and r[0] == 'value' and len(r[1]) == 1:
                    return self.fold(r[1][0], None, r[2], _depth + 1)
        return False, None


class _ModuleCtx:
    """Resolution context for expressions at module level."""

    def __init__(self, module):
        self.module = module
        self.cls = None
        self.parent = None
        self.node = None
        self.where = module.short + ':<module>'
        self.relpath = module.relpath

    def params(self):
        return []


def _patch_local_defs():
    orig = Model.local_defs

    def local_defs(self, fi, name):
        if isinstance(fi, _ModuleCtx):
            return []
        return orig(self, fi, name)
    Model.local_defs = local_defs


_patch_local_defs()


def _target_names(t):
    if isinstance(t, ast.Name):
        return [t.id]
    if isinstance(t, (ast.Tuple, ast.List)):
        out = []
        for e in t.elts:
            out += _target_names(e)
        return out
    if isinstance(t, ast.Starred):
        return _target_names(t.value)
    return []


def _stmt_lists(n):
    if isinstance(n, ast.If):
        return [n.body, n.orelse]
    if isinstance(n, ast.Try):
        return [n.body, n.orelse, n.finalbody] + [h.body for h in n.handlers]
    return []


def _toplevel_stmts(body):
    for n in body:
        yield n
        if isinstance(n, (ast.If, ast.Try)):
            for sub in _stmt_lists(n):
                yield from _toplevel_stmts(sub)


_BUILTINS = set(dir(__builtins__)) if not isinstance(__builtins__, dict) \
    else set(__builtins__)


def load_model():
    return Model()
