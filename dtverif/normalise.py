"""Source normalisation applied to every module before it is indexed.

N1  `with K(a, b) [as v]: BODY`, where K is a context-manager class of the
    same module whose __init__ only stores its parameters, is rewritten to

        <body of K.__enter__>          (v = its return value)
        try:
            BODY
        finally:
            <body of K.__exit__>

    with `self.attr` replaced by the constructor argument.  This is what the
    statement means when __exit__ does not swallow exceptions (it must end in
    `return False` / `return None` / no return).  All rules then see the
    try/finally they know; the methods of K are marked so that rules which
    judge whole functions (push/pop balance) do not judge them in isolation.

The rewrite keeps semantics only under the stated conditions; when one of
them fails the `with` statement is left alone.
"""
import ast
import copy


def _simple_init(cls):
    """attr -> parameter name, parameter list; None if __init__ does more
    than store its parameters."""
    init = None
    for st in cls.body:
        if isinstance(st, ast.FunctionDef) and st.name == '__init__':
            init = st
    if init is None:
        return {}, []
    params = [a.arg for a in init.args.args][1:]
    if init.args.vararg or init.args.kwarg or init.args.kwonlyargs:
        return None
    amap = {}
    for st in init.body:
        if isinstance(st, ast.Expr) and isinstance(st.value, ast.Constant):
            continue
        if isinstance(st, ast.Assign) and len(st.targets) == 1 and \
                isinstance(st.targets[0], ast.Attribute) and \
                isinstance(st.targets[0].value, ast.Name) and \
                st.targets[0].value.id == 'self' and \
                isinstance(st.value, ast.Name) and st.value.id in params:
            amap[st.targets[0].attr] = st.value.id
            continue
        return None
    defaults = {}
    ds = init.args.defaults
    for p, d in zip(params[len(params) - len(ds):], ds):
        defaults[p] = d
    return amap, params, defaults


def _method(cls, name):
    for st in cls.body:
        if isinstance(st, ast.FunctionDef) and st.name == name:
            return st
    return None


def _candidates(tree):
    out = {}
    for n in tree.body:
        if not isinstance(n, ast.ClassDef):
            continue
        en, ex = _method(n, '__enter__'), _method(n, '__exit__')
        if en is None or ex is None:
            continue
        ini = _simple_init(n)
        if ini is None:
            continue
        if ini == ({}, []):
            ini = ({}, [], {})
        # __exit__: no swallowing
        body = [s for s in ex.body
                if not (isinstance(s, ast.Expr) and
                        isinstance(s.value, ast.Constant))]
        ok = True
        if body and isinstance(body[-1], ast.Return):
            v = body[-1].value
            if not (v is None or (isinstance(v, ast.Constant) and
                                  not v.value)):
                ok = False
            body = body[:-1]
        if any(isinstance(x, (ast.Return, ast.Yield, ast.YieldFrom))
               for s in body for x in ast.walk(s)):
            ok = False
        ebody = [s for s in en.body
                 if not (isinstance(s, ast.Expr) and
                         isinstance(s.value, ast.Constant))]
        eret = None
        if ebody and isinstance(ebody[-1], ast.Return):
            eret = ebody[-1].value
            ebody = ebody[:-1]
        if any(isinstance(x, (ast.Return, ast.Yield, ast.YieldFrom))
               for s in ebody for x in ast.walk(s)):
            ok = False
        if ok:
            out[n.name] = dict(init=ini, enter=ebody, enter_ret=eret,
                               exit=body)
    return out


class _Subst(ast.NodeTransformer):
    def __init__(self, amap):
        self.amap = amap
        self.bad = False

    def visit_Attribute(self, node):
        if isinstance(node.value, ast.Name) and node.value.id == 'self':
            if node.attr in self.amap and isinstance(node.ctx, ast.Load):
                return copy.deepcopy(self.amap[node.attr])
            self.bad = True
            return node
        return self.generic_visit(node)

    def visit_Name(self, node):
        if node.id == 'self':
            self.bad = True
        return node


def _relocate(nodes, at):
    for n in nodes:
        for x in ast.walk(n):
            if hasattr(x, 'lineno'):
                x.lineno = at.lineno
                x.end_lineno = getattr(at, 'end_lineno', at.lineno)
                x.col_offset = at.col_offset
                x.end_col_offset = getattr(at, 'end_col_offset', 0)
    return nodes


def desugar_with(tree):
    """Rewrite desugarable `with` statements in place.  -> set of class
    names whose uses were all rewritten."""
    cands = _candidates(tree)
    if not cands:
        return set()
    used = {}
    counter = [0]

    def rewrite(w):
        if len(w.items) != 1:
            return None
        it = w.items[0]
        c = it.context_expr
        if not (isinstance(c, ast.Call) and isinstance(c.func, ast.Name)
                and c.func.id in cands):
            return None
        k = cands[c.func.id]
        amap_attr, params, defaults = k['init']
        if any(isinstance(a, ast.Starred) for a in c.args) or \
                any(kw.arg is None for kw in c.keywords):
            return None
        actual = {}
        for p, a in zip(params, c.args):
            actual[p] = a
        for kw in c.keywords:
            actual[kw.arg] = kw.value
        for p in params:
            if p not in actual:
                if p in defaults:
                    actual[p] = defaults[p]
                else:
                    return None
        stored = {x.id for s in w.body for x in ast.walk(s)
                  if isinstance(x, ast.Name) and isinstance(x.ctx, ast.Store)}
        pre = []
        amap = {}
        for attr, p in amap_attr.items():
            a = actual[p]
            simple = isinstance(a, ast.Constant) or (
                isinstance(a, ast.Name) and a.id not in stored) or (
                isinstance(a, ast.Attribute) and
                isinstance(a.value, ast.Name) and a.value.id == 'self')
            if simple:
                amap[attr] = a
            else:
                counter[0] += 1
                tmp = f'_dt_cm{counter[0]}_{attr}'
                pre.append(ast.Assign(
                    targets=[ast.Name(id=tmp, ctx=ast.Store())],
                    value=copy.deepcopy(a)))
                amap[attr] = ast.Name(id=tmp, ctx=ast.Load())
        # `with K(x, <expr>) as v` where __enter__ returns the stored
        # <expr>: bind v itself instead of a temporary
        rv0 = k['enter_ret']
        if it.optional_vars is not None and \
                isinstance(it.optional_vars, ast.Name) and \
                isinstance(rv0, ast.Attribute) and \
                isinstance(rv0.value, ast.Name) and rv0.value.id == 'self' \
                and rv0.attr in amap and isinstance(amap[rv0.attr], ast.Name) \
                and amap[rv0.attr].id.startswith('_dt_cm'):
            tmp = amap[rv0.attr].id
            for a in pre:
                if a.targets[0].id == tmp:
                    a.targets[0].id = it.optional_vars.id
            amap[rv0.attr] = ast.Name(id=it.optional_vars.id,
                                      ctx=ast.Load())
        sub = _Subst(amap)

        def selfassign(st):
            return isinstance(st, ast.Assign) and len(st.targets) == 1 and \
                isinstance(st.targets[0], ast.Name) and \
                isinstance(st.value, ast.Name) and \
                st.targets[0].id == st.value.id
        enter = [sub.visit(copy.deepcopy(s)) for s in k['enter']]
        exit_ = [sub.visit(copy.deepcopy(s)) for s in k['exit']]
        enter = [s for s in enter if not selfassign(s)]
        exit_ = [s for s in exit_ if not selfassign(s)]
        if it.optional_vars is not None:
            if k['enter_ret'] is None:
                return None
            rv = k['enter_ret']
            if isinstance(rv, ast.Name) and rv.id == 'self':
                # the manager object itself: fine only if the body never
                # uses the name
                if isinstance(it.optional_vars, ast.Name) and not any(
                        isinstance(x, ast.Name) and
                        x.id == it.optional_vars.id
                        for s in w.body for x in ast.walk(s)):
                    pass
                else:
                    return None
            else:
                val = sub.visit(copy.deepcopy(rv))
                asg = ast.Assign(
                    targets=[copy.deepcopy(it.optional_vars)], value=val)
                if not selfassign(asg):
                    enter.append(asg)
        if sub.bad:
            return None
        new = pre + enter + [ast.Try(body=w.body, handlers=[], orelse=[],
                                     finalbody=exit_ or [ast.Pass()])]
        _relocate(pre + enter + exit_, w)
        for n in new:
            ast.copy_location(n, w)
        used[c.func.id] = used.get(c.func.id, 0) + 1
        return new

    def walk_lists(node):
        for fld in ('body', 'orelse', 'finalbody'):
            lst = getattr(node, fld, None)
            if not isinstance(lst, list):
                continue
            i = 0
            while i < len(lst):
                st = lst[i]
                if isinstance(st, ast.With):
                    new = rewrite(st)
                    if new is not None:
                        lst[i:i + 1] = new
                        continue        # revisit the inserted statements
                if isinstance(st, ast.AST):
                    walk_lists(st)
                i += 1
        for h in getattr(node, 'handlers', []) or []:
            walk_lists(h)
        for c in getattr(node, 'cases', []) or []:
            walk_lists(c)

    walk_lists(tree)
    ast.fix_missing_locations(tree)
    # classes still constructed somewhere outside a rewritten `with`?
    left = set()
    for n in ast.walk(tree):
        if isinstance(n, ast.Call) and isinstance(n.func, ast.Name) and \
                n.func.id in cands:
            left.add(n.func.id)
    return {name for name in used if name not in left}
