"""Source normalisation applied to every module before it is indexed.

N1  `with K(a, b) [as v]: BODY`, where K is a context-manager class of the
    same module whose __init__ only stores its parameters, is rewritten to

        <body of K.__enter__>          (v = its return value)
        try:
            BODY
        finally:
            <body of K.__exit__>

    with `self.attr` replaced by the constructor argument.  This is what the
    statement means when __exit__ does not swallow exceptions (it must end in
    `return False` / `return None` / no return).  All rules then see the
    try/finally they know; the methods of K are marked so that rules which
    judge whole functions (push/pop balance) do not judge them in isolation.

The rewrite keeps semantics only under the stated conditions; when one of
them fails the `with` statement is left alone.
"""
import ast
import copy


def _simple_init(cls):
    """attr -> parameter name, parameter list; None if __init__ does more
    than store its parameters."""
    init = None
    for st in cls.body:
        if isinstance(st, ast.FunctionDef) and st.name == '__init__':
            init = st
    if init is None:
        return {}, []
    params = [a.arg for a in init.args.args][1:]
    if init.args.vararg or init.args.kwarg or init.args.kwonlyargs:
        return None
    amap = {}
    for st in init.body:
        if isinstance(st, ast.Expr) and isinstance(st.value, ast.Constant):
            continue
        if isinstance(st, ast.Assign) and len(st.targets) == 1 and \
                isinstance(st.targets[0], ast.Attribute) and \
                isinstance(st.targets[0].value, ast.Name) and \
                st.targets[0].value.id == 'self' and \
                isinstance(st.value, ast.Name) and st.value.id in params:
            amap[st.targets[0].attr] = st.value.id
            continue
        return None
    defaults = {}
    ds = init.args.defaults
    for p, d in zip(params[len(params) - len(ds):], ds):
        defaults[p] = d
    return amap, params, defaults


def _method(cls, name):
    for st in cls.body:
        if isinstance(st, ast.FunctionDef) and st.name == name:
            return st
    return None


def _candidates(tree):
    out = {}
    for n in tree.body:
        if not isinstance(n, ast.ClassDef):
            continue
        en, ex = _method(n, '__enter__'), _method(n, '__exit__')
        if en is None or ex is None:
            continue
        ini = _simple_init(n)
        if ini is None:
            continue
        if ini == ({}, []):
            ini = ({}, [], {})
        # __exit__: no swallowing
        body = [s for s in ex.body
                if not (isinstance(s, ast.Expr) and
                        isinstance(s.value, ast.Constant))]
        ok = True
        if body and isinstance(body[-1], ast.Return):
            v = body[-1].value
            if not (v is None or (isinstance(v, ast.Constant) and
                                  not v.value)):
                ok = False
            body = body[:-1]
        if any(isinstance(x, (ast.Return, ast.Yield, ast.YieldFrom))
               for s in body for x in ast.walk(s)):
            ok = False
        ebody = [s for s in en.body
                 if not (isinstance(s, ast.Expr) and
                         isinstance(s.value, ast.Constant))]
        eret = None
        if ebody and isinstance(ebody[-1], ast.Return):
            eret = ebody[-1].value
            ebody = ebody[:-1]
        if any(isinstance(x, (ast.Return, ast.Yield, ast.YieldFrom))
               for s in ebody for x in ast.walk(s)):
            ok = False
        if ok:
            out[n.name] = dict(init=ini, enter=ebody, enter_ret=eret,
                               exit=body)
    return out


class _Subst(ast.NodeTransformer):
    def __init__(self, amap):
        self.amap = amap
        self.bad = False

    def visit_Attribute(self, node):
        if isinstance(node.value, ast.Name) and node.value.id == 'self':
            if node.attr in self.amap and isinstance(node.ctx, ast.Load):
                return copy.deepcopy(self.amap[node.attr])
            self.bad = True
            return node
        return self.generic_visit(node)

    def visit_Name(self, node):
        if node.id == 'self':
            self.bad = True
        return node


def _relocate(nodes, at):
    for n in nodes:
        for x in ast.walk(n):
            if hasattr(x, 'lineno'):
                x.lineno = at.lineno
                x.end_lineno = getattr(at, 'end_lineno', at.lineno)
                x.col_offset = at.col_offset
                x.end_col_offset = getattr(at, 'end_col_offset', 0)
    return nodes


def desugar_with(tree):
    """Rewrite desugarable `with` statements in place.  -> set of class
    names whose uses were all rewritten."""
    cands = _candidates(tree)
    if not cands:
        return set()
    used = {}
    counter = [0]

    def rewrite(w):
        if len(w.items) != 1:
            return None
        it = w.items[0]
        c = it.context_expr
        if not (isinstance(c, ast.Call) and isinstance(c.func, ast.Name)
                and c.func.id in cands):
            return None
        k = cands[c.func.id]
        amap_attr, params, defaults = k['init']
        if any(isinstance(a, ast.Starred) for a in c.args) or \
                any(kw.arg is None for kw in c.keywords):
            return None
        actual = {}
        for p, a in zip(params, c.args):
            actual[p] = a
        for kw in c.keywords:
            actual[kw.arg] = kw.value
        for p in params:
            if p not in actual:
                if p in defaults:
                    actual[p] = defaults[p]
                else:
                    return None
        stored = {x.id for s in w.body for x in ast.walk(s)
                  if isinstance(x, ast.Name) and isinstance(x.ctx, ast.Store)}
        pre = []
        amap = {}
        for attr, p in amap_attr.items():
            a = actual[p]
            simple = isinstance(a, ast.Constant) or (
                isinstance(a, ast.Name) and a.id not in stored) or (
                isinstance(a, ast.Attribute) and
                isinstance(a.value, ast.Name) and a.value.id == 'self')
            if simple:
                amap[attr] = a
            else:
                counter[0] += 1
                tmp = f'_dt_cm{counter[0]}_{attr}'
                pre.append(ast.Assign(
                    targets=[ast.Name(id=tmp, ctx=ast.Store())],
                    value=copy.deepcopy(a)))
                amap[attr] = ast.Name(id=tmp, ctx=ast.Load())
        # `with K(x, <expr>) as v` where __enter__ returns the stored
        # <expr>: bind v itself instead of a temporary
        rv0 = k['enter_ret']
        if it.optional_vars is not None and \
                isinstance(it.optional_vars, ast.Name) and \
                isinstance(rv0, ast.Attribute) and \
                isinstance(rv0.value, ast.Name) and rv0.value.id == 'self' \
                and rv0.attr in amap and isinstance(amap[rv0.attr], ast.Name) \
                and amap[rv0.attr].id.startswith('_dt_cm'):
            tmp = amap[rv0.attr].id
            for a in pre:
                if a.targets[0].id == tmp:
                    a.targets[0].id = it.optional_vars.id
            amap[rv0.attr] = ast.Name(id=it.optional_vars.id,
                                      ctx=ast.Load())
        sub = _Subst(amap)

        def selfassign(st):
            return isinstance(st, ast.Assign) and len(st.targets) == 1 and \
                isinstance(st.targets[0], ast.Name) and \
                isinstance(st.value, ast.Name) and \
                st.targets[0].id == st.value.id
        enter = [sub.visit(copy.deepcopy(s)) for s in k['enter']]
        exit_ = [sub.visit(copy.deepcopy(s)) for s in k['exit']]
        enter = [s for s in enter if not selfassign(s)]
        exit_ = [s for s in exit_ if not selfassign(s)]
        if it.optional_vars is not None:
            if k['enter_ret'] is None:
                return None
            rv = k['enter_ret']
            if isinstance(rv, ast.Name) and rv.id == 'self':
                # the manager object itself: fine only if the body never
                # uses the name
                if isinstance(it.optional_vars, ast.Name) and not any(
                        isinstance(x, ast.Name) and
                        x.id == it.optional_vars.id
                        for s in w.body for x in ast.walk(s)):
                    pass
                else:
                    return None
            else:
                val = sub.visit(copy.deepcopy(rv))
                asg = ast.Assign(
                    targets=[copy.deepcopy(it.optional_vars)], value=val)
                if not selfassign(asg):
                    enter.append(asg)
        if sub.bad:
            return None
        new = pre + enter + [ast.Try(body=w.body, handlers=[], orelse=[],
                                     finalbody=exit_ or [ast.Pass()])]
        _relocate(pre + enter + exit_, w)
        for n in new:
            ast.copy_location(n, w)
        used[c.func.id] = used.get(c.func.id, 0) + 1
        return new

    def walk_lists(node):
        for fld in ('body', 'orelse', 'finalbody'):
            lst = getattr(node, fld, None)
            if not isinstance(lst, list):
                continue
            i = 0
            while i < len(lst):
                st = lst[i]
                if isinstance(st, ast.With):
                    new = rewrite(st)
                    if new is not None:
                        lst[i:i + 1] = new
                        continue        # revisit the inserted statements
                if isinstance(st, ast.AST):
                    walk_lists(st)
                i += 1
        for h in getattr(node, 'handlers', []) or []:
            walk_lists(h)
        for c in getattr(node, 'cases', []) or []:
            walk_lists(c)

    walk_lists(tree)
    ast.fix_missing_locations(tree)
    # classes still constructed somewhere outside a rewritten `with`?
    left = set()
    for n in ast.walk(tree):
        if isinstance(n, ast.Call) and isinstance(n.func, ast.Name) and \
                n.func.id in cands:
            left.add(n.func.id)
    return {name for name in used if name not in left}


# --------------------------------------------------------------------- N1b
"""N1b  `with recv.m(args) [as v]: BODY` (or `with f(args) ...`), where m / f
is a generator function decorated with contextlib.contextmanager defined
anywhere in the shipped sources, is rewritten to what the statement means:

    PRE; [v = <yielded value>]
    try: BODY / except BaseException: raise / else*: POST   yield at top level
    PRE; try: BODY  finally: FIN;  POST               yield inside try/finally

A bare `yield` that is not protected by try/finally does NOT run POST when
BODY raises (the exception is thrown into the generator at the yield); it
does run POST when BODY completes or is left by return / break / continue
(else*: an else clause marked `_dt_else_on_exit`, which flow.Interp runs on
every non-raising exit).  The push/pop balance and scoping rules therefore
judge such a helper by what it really guarantees.  Shapes that cannot be expressed this
way (yield under except handlers, several yields, loops around the yield)
are left alone.
"""


def _is_cm_decorator(d):
    if isinstance(d, ast.Call):
        d = d.func
    return (isinstance(d, ast.Name) and d.id == 'contextmanager') or (
        isinstance(d, ast.Attribute) and d.attr == 'contextmanager')


def collect_cm_generators(trees):
    """name -> description of the contextmanager generator functions of all
    modules (unique names only)."""
    found = {}
    for tree in trees:
        for n in ast.walk(tree):
            if isinstance(n, ast.FunctionDef) and any(
                    _is_cm_decorator(d) for d in n.decorator_list):
                found.setdefault(n.name, []).append(n)
    out = {}
    for name, defs in found.items():
        if len(defs) != 1:
            continue
        d = _cm_shape(defs[0])
        if d is not None:
            out[name] = d
    return out


def _strip_doc(body):
    return [s for s in body if not (isinstance(s, ast.Expr) and
                                    isinstance(s.value, ast.Constant))]


def _cm_shape(fn):
    a = fn.args
    if a.vararg or a.kwarg or a.kwonlyargs or a.posonlyargs:
        return None
    body = _strip_doc(fn.body)
    yields = [x for s in body for x in ast.walk(s)
              if isinstance(x, (ast.Yield, ast.YieldFrom))]
    if len(yields) != 1 or not isinstance(yields[0], ast.Yield):
        return None
    if any(isinstance(x, ast.Return) for s in body for x in ast.walk(s)):
        return None

    def is_yield_stmt(s):
        return isinstance(s, ast.Expr) and s.value is yields[0]
    for i, s in enumerate(body):
        if is_yield_stmt(s):
            return dict(fn=fn, pre=body[:i], fin=None, post=body[i + 1:],
                        value=yields[0].value)
        if isinstance(s, ast.Try) and not s.handlers and not s.orelse \
                and len(s.body) >= 1 and is_yield_stmt(s.body[-1]) and \
                any(x is yields[0] for x in ast.walk(s)):
            # statements before the yield inside the try are protected by
            # the finally as well: keep them inside the rewritten try
            return dict(fn=fn, pre=body[:i], try_pre=s.body[:-1],
                        fin=s.finalbody, post=body[i + 1:],
                        value=yields[0].value)
        if any(x is yields[0] for x in ast.walk(s)):
            return None
    return None


class _RenameNames(ast.NodeTransformer):
    def __init__(self, mapping):
        self.mapping = mapping

    def visit_Name(self, node):
        if node.id in self.mapping:
            return copy.deepcopy(self.mapping[node.id]) \
                if isinstance(node.ctx, ast.Load) or isinstance(
                    self.mapping[node.id], ast.Name) else node
        return node


def desugar_cm_generators(tree, gens):
    """Rewrite `with` statements over the generators in `gens` in place.
    -> set of generator names used (and rewritten) in this module."""
    if not gens:
        return set()
    used = set()
    counter = [0]

    def rewrite(w):
        if len(w.items) != 1:
            return None
        it = w.items[0]
        c = it.context_expr
        if not isinstance(c, ast.Call):
            return None
        f = c.func
        if isinstance(f, ast.Name) and f.id in gens:
            g, recv = gens[f.id], None
        elif isinstance(f, ast.Attribute) and f.attr in gens:
            g, recv = gens[f.attr], f.value
        else:
            return None
        fn = g['fn']
        params = [a.arg for a in fn.args.args]
        if any(isinstance(a, ast.Starred) for a in c.args) or \
                any(kw.arg is None for kw in c.keywords):
            return None
        actual = {}
        if recv is not None:
            if not params:
                return None
            if not isinstance(recv, (ast.Name, ast.Attribute)):
                return None
            actual[params[0]] = recv
            params = params[1:]
        for p_, a in zip(params, c.args):
            actual[p_] = a
        for kw in c.keywords:
            actual[kw.arg] = kw.value
        ds = fn.args.defaults
        allp = [a.arg for a in fn.args.args]
        for p_, d in zip(allp[len(allp) - len(ds):], ds):
            actual.setdefault(p_, d)
        if any(p_ not in actual for p_ in params):
            return None
        counter[0] += 1
        tag = f'_dt_cg{counter[0]}_'
        pre_assign = []
        mapping = {}
        for p_, a in actual.items():
            if isinstance(a, (ast.Name, ast.Constant)) or (
                    isinstance(a, ast.Attribute) and
                    isinstance(a.value, ast.Name)):
                mapping[p_] = a
            else:
                tmp = tag + p_
                pre_assign.append(ast.Assign(
                    targets=[ast.Name(id=tmp, ctx=ast.Store())],
                    value=copy.deepcopy(a)))
                mapping[p_] = ast.Name(id=tmp, ctx=ast.Load())
        # locals of the generator are renamed apart
        locs = {x.id for s in fn.body for x in ast.walk(s)
                if isinstance(x, ast.Name) and isinstance(x.ctx, ast.Store)}
        for nm in locs:
            if nm not in mapping:
                mapping[nm] = ast.Name(id=tag + nm, ctx=ast.Load())
        ren = _RenameNames(mapping)

        def inst(stmts):
            return [ren.visit(copy.deepcopy(s)) for s in (stmts or [])]
        pre, post = inst(g['pre']), inst(g['post'])
        bind = []
        if it.optional_vars is not None:
            if g['value'] is None:
                val = ast.Constant(value=None)
            else:
                val = ren.visit(copy.deepcopy(g['value']))
            bind = [ast.Assign(targets=[copy.deepcopy(it.optional_vars)],
                               value=val)]
        if g['fin'] is None and not post:
            new = pre_assign + pre + bind + list(w.body)
        elif g['fin'] is None:
            # POST runs when BODY completes or is left by return / break /
            # continue (__exit__ resumes the generator), not when it raises
            # (the exception is thrown in at the unprotected yield):
            #     try: BODY / except BaseException: raise / else: POST
            # with the else clause marked as running on every non-raising
            # exit (flow.Interp honours the mark)
            t = ast.Try(body=bind + list(w.body), handlers=[
                ast.ExceptHandler(type=ast.Name(id='BaseException',
                                                ctx=ast.Load()),
                                  name=None, body=[ast.Raise(exc=None,
                                                             cause=None)])],
                orelse=post, finalbody=[])
            t._dt_else_on_exit = True
            new = pre_assign + pre + [t]
            bind = []
        else:
            new = pre_assign + pre + [ast.Try(
                body=inst(g.get('try_pre')) + bind + list(w.body),
                handlers=[], orelse=[],
                finalbody=inst(g['fin']) or [ast.Pass()])] + post
        generated = [n for n in new if not any(n is b for b in w.body)]
        _relocate([n for n in generated if not isinstance(n, ast.Try)], w)
        for n in generated:
            if isinstance(n, ast.Try):
                _relocate(n.finalbody, w)
                _relocate(n.orelse, w)
                _relocate(n.handlers, w)
                _relocate([b for b in n.body
                           if not any(b is x for x in w.body)], w)
            ast.copy_location(n, w)
        used.add(fn.name)
        return new

    def walk_lists(node):
        for fld in ('body', 'orelse', 'finalbody'):
            lst = getattr(node, fld, None)
            if not isinstance(lst, list):
                continue
            i = 0
            while i < len(lst):
                st = lst[i]
                if isinstance(st, ast.With):
                    new = rewrite(st)
                    if new is not None:
                        lst[i:i + 1] = new
                        continue
                if isinstance(st, ast.AST):
                    walk_lists(st)
                i += 1
        for h in getattr(node, 'handlers', []) or []:
            walk_lists(h)
        for c in getattr(node, 'cases', []) or []:
            walk_lists(c)

    walk_lists(tree)
    ast.fix_missing_locations(tree)
    return used


# ---------------------------------------------------------------------- N2
"""N2  Calls of helper functions that do not exist in the reference tree
(dtverif/inventory.json: the functions of the pinned source) are inlined
at their call sites: a maintainer who extracts a helper, merges two
siblings into one, or splits a function into phases leaves the analysed
unit unchanged.  The rewrite is semantics preserving under the conditions
checked below; when one fails the call is left alone.

  * the helper is a plain function of the module, a method of the caller's
    class called through `self.`, or a function nested in the caller;
  * it has no *args / **kwargs, does not yield, is not recursive, declares
    no global / nonlocal;
  * the call is the whole right-hand side of an assignment, the operand of
    a return, an expression statement, or the left-most operand of an `if`
    test (hoisted in front of the `if`); helpers consisting of a single
    `return <expr>` are substituted anywhere their arguments allow;
  * parameters are replaced by the argument when that is a plain name /
    constant / self.attr that the helper does not re-bind, otherwise bound
    to a fresh local first; the helper's locals are renamed apart;
  * `return`s are turned into assignments of a result variable by nesting
    the rest of the body into the else branch of guard clauses; helpers
    whose control flow does not allow that are not inlined.
"""

import json
import os

_INV = None


def inventory():
    global _INV
    if _INV is None:
        p = os.path.join(os.path.dirname(os.path.abspath(__file__)),
                         'inventory.json')
        with open(p) as fh:
            _INV = {k: set(v) for k, v in json.load(fh).items()}
    return _INV


class _Cannot(Exception):
    pass


def _always_exits(stmts):
    """Does every path through stmts end in return / raise?"""
    for st in stmts:
        if isinstance(st, (ast.Return, ast.Raise)):
            return True
        if isinstance(st, ast.If) and st.orelse and \
                _always_exits(st.body) and _always_exits(st.orelse):
            return True
        if isinstance(st, ast.Try) and not st.finalbody:
            if _always_exits(st.body + st.orelse) and all(
                    _always_exits(h.body) for h in st.handlers):
                return True
    return False


def _has_return(stmts):
    for st in stmts:
        for x in ast.walk(st):
            if isinstance(x, ast.Return):
                return True
    return False


_FLAG = [0]


def _lower_returns(stmts, res):
    """Rewrite a statement list so that it assigns `res` instead of
    returning.  Raises _Cannot for shapes not handled."""
    out = []
    for i, st in enumerate(stmts):
        rest = stmts[i + 1:]
        if isinstance(st, ast.Return):
            val = st.value if st.value is not None else \
                ast.Constant(value=None)
            asg_ = ast.Assign(
                targets=[ast.Name(id=res, ctx=ast.Store())], value=val)
            asg_._dt_ret = res
            out.append(asg_)
            return out              # the rest is unreachable
        if not _has_return([st]):
            out.append(st)
            continue
        if isinstance(st, ast.If):
            t_exit = _always_exits(st.body)
            f_exit = _always_exits(st.orelse) if st.orelse else False
            if t_exit and f_exit:
                out.append(ast.If(test=st.test,
                                  body=_lower_returns(st.body, res),
                                  orelse=_lower_returns(st.orelse, res)))
                return out
            if t_exit:
                out.append(ast.If(
                    test=st.test, body=_lower_returns(st.body, res),
                    orelse=_lower_returns(st.orelse + rest, res)
                    or [ast.Pass()]))
                return out
            if f_exit:
                out.append(ast.If(
                    test=st.test,
                    body=_lower_returns(st.body + rest, res)
                    or [ast.Pass()],
                    orelse=_lower_returns(st.orelse, res)))
                return out
            raise _Cannot('conditional return with fall-through')
        if isinstance(st, ast.Try):
            if _has_return(st.finalbody):
                raise _Cannot('return in finally')
            # every handler leaves, the body falls through: the code after
            # the try runs exactly when no handler ran -- it is the `else`
            if rest and not _has_return(st.body) and st.handlers and all(
                    _always_exits(h.body) for h in st.handlers):
                out.append(ast.Try(
                    body=st.body,
                    handlers=[ast.ExceptHandler(
                        type=h.type, name=h.name,
                        body=_lower_returns(h.body, res) or [ast.Pass()])
                        for h in st.handlers],
                    orelse=_lower_returns(st.orelse + rest, res),
                    finalbody=st.finalbody))
                return out
            # try: return X except ...: raise / return  -- as last statement
            if rest and not _always_exits([st]):
                # a try that may return or fall through, followed by code:
                #   done = False
                #   try: ...; res = X; done = True  except ...: ...
                #   if not done: <rest>
                _FLAG[0] += 1
                flag = f'{res}_done{_FLAG[0]}'

                def mark(stmts):
                    new_ = []
                    for s_ in stmts:
                        for fld in ('body', 'orelse', 'finalbody'):
                            sub = getattr(s_, fld, None)
                            if isinstance(sub, list) and sub and isinstance(
                                    sub[0], ast.stmt):
                                setattr(s_, fld, mark(sub))
                        if isinstance(s_, ast.Try):
                            for h_ in s_.handlers:
                                h_.body = mark(h_.body)
                        new_.append(s_)
                        if isinstance(s_, ast.Assign) and getattr(
                                s_, '_dt_ret', None) == res:
                            new_.append(ast.Assign(
                                targets=[ast.Name(id=flag, ctx=ast.Store())],
                                value=ast.Constant(value=True)))
                    return new_
                low = ast.Try(
                    body=mark(_lower_returns(st.body, res)),
                    handlers=[ast.ExceptHandler(
                        type=h.type, name=h.name,
                        body=mark(_lower_returns(h.body, res)) or
                        [ast.Pass()]) for h in st.handlers],
                    orelse=mark(_lower_returns(st.orelse, res)),
                    finalbody=st.finalbody)
                out.append(ast.Assign(
                    targets=[ast.Name(id=flag, ctx=ast.Store())],
                    value=ast.Constant(value=False)))
                out.append(low)
                out.append(ast.If(
                    test=ast.UnaryOp(op=ast.Not(), operand=ast.Name(
                        id=flag, ctx=ast.Load())),
                    body=_lower_returns(rest, res) or [ast.Pass()],
                    orelse=[]))
                return out
            new = ast.Try(
                body=_lower_returns(st.body, res),
                handlers=[ast.ExceptHandler(
                    type=h.type, name=h.name,
                    body=_lower_returns(h.body, res) or [ast.Pass()])
                    for h in st.handlers],
                orelse=_lower_returns(st.orelse, res),
                finalbody=st.finalbody)
            if _has_return(st.finalbody):
                raise _Cannot('return in finally')
            out.append(new)
            if _always_exits([st]):
                return out
            continue
        if isinstance(st, ast.With):
            if rest and not _always_exits(st.body):
                raise _Cannot('with containing a return followed by code')
            out.append(ast.With(items=st.items,
                                body=_lower_returns(st.body, res)))
            if _always_exits(st.body):
                return out
            continue
        raise _Cannot(f'return inside {type(st).__name__}')
    return out


class _Rename(ast.NodeTransformer):
    def __init__(self, subst, rename):
        self.subst = subst      # param -> expression
        self.rename = rename    # local -> new name

    def visit_Name(self, node):
        if node.id in self.subst and isinstance(node.ctx, ast.Load):
            return copy.deepcopy(self.subst[node.id])
        if node.id in self.rename:
            return ast.copy_location(
                ast.Name(id=self.rename[node.id], ctx=node.ctx), node)
        return node

    def visit_ExceptHandler(self, node):
        # `except E as name`: the bound name is a plain string
        if node.name and node.name in self.rename:
            node.name = self.rename[node.name]
        return self.generic_visit(node)

    def visit_FunctionDef(self, node):
        return node             # nested definitions keep their own scope

    visit_AsyncFunctionDef = visit_Lambda = visit_FunctionDef


def _simple_arg(a):
    return isinstance(a, ast.Constant) or isinstance(a, ast.Name) or (
        isinstance(a, ast.Attribute) and isinstance(a.value, ast.Name)
        and a.value.id == 'self')


def _pure_expr(a):
    """Comparison / boolean / arithmetic expression over plain names and
    constants: evaluating it later gives the same value as long as none of
    its names is re-bound in between."""
    if isinstance(a, (ast.Constant, ast.Name)):
        return True
    if isinstance(a, ast.Compare):
        return _pure_expr(a.left) and all(_pure_expr(c)
                                          for c in a.comparators) and all(
            isinstance(o, (ast.Eq, ast.NotEq, ast.Lt, ast.LtE, ast.Gt,
                           ast.GtE, ast.Is, ast.IsNot)) for o in a.ops)
    if isinstance(a, ast.BoolOp):
        return all(_pure_expr(v) for v in a.values)
    if isinstance(a, ast.UnaryOp) and isinstance(a.op, (ast.Not, ast.USub)):
        return _pure_expr(a.operand)
    return False


def _inlinable(fn):
    a = fn.args
    if a.vararg or a.kwarg or a.posonlyargs:
        return False
    for x in ast.walk(fn):
        if isinstance(x, (ast.Yield, ast.YieldFrom, ast.Global,
                          ast.Nonlocal, ast.Await)):
            return False
        if isinstance(x, ast.Call) and isinstance(x.func, ast.Name) and \
                x.func.id == fn.name:
            return False
        if isinstance(x, ast.Call) and isinstance(x.func, ast.Attribute) \
                and x.func.attr == fn.name and \
                isinstance(x.func.value, ast.Name) and \
                x.func.value.id == 'self':
            return False
    return True


def _fold(e):
    """Fold tests over constants (None is None, True or x ...)."""
    if isinstance(e, ast.UnaryOp) and isinstance(e.op, ast.Not):
        v = _fold(e.operand)
        if isinstance(v, ast.Constant):
            return ast.copy_location(ast.Constant(value=not v.value), e)
        return ast.copy_location(ast.UnaryOp(op=e.op, operand=v), e)
    if isinstance(e, ast.Compare) and len(e.ops) == 1 and \
            isinstance(e.left, ast.Constant) and \
            isinstance(e.comparators[0], ast.Constant):
        a, b = e.left.value, e.comparators[0].value
        op = e.ops[0]
        try:
            val = {ast.Is: a is b, ast.IsNot: a is not b, ast.Eq: a == b,
                   ast.NotEq: a != b}.get(type(op))
        except Exception:
            val = None
        if val is not None:
            return ast.copy_location(ast.Constant(value=val), e)
    if isinstance(e, ast.BoolOp):
        vals = [_fold(v) for v in e.values]
        is_or = isinstance(e.op, ast.Or)
        keep = []
        for v in vals:
            if isinstance(v, ast.Constant):
                if bool(v.value) == is_or:
                    # short-circuits here: earlier operands have no effects
                    # worth keeping only if they are constants too
                    if not keep:
                        return ast.copy_location(
                            ast.Constant(value=bool(v.value)), e)
                    keep.append(v)
                    break
                continue            # neutral element
            keep.append(v)
        if not keep:
            return ast.copy_location(ast.Constant(value=not is_or), e)
        if len(keep) == 1:
            return keep[0]
        return ast.copy_location(ast.BoolOp(op=e.op, values=keep), e)
    return e


def _tidy(stmts):
    """Drop `x = x` and prune `if <constant>:` left by substituting
    constant arguments."""
    out = []
    for st in stmts:
        if isinstance(st, ast.Assign) and len(st.targets) == 1 and \
                isinstance(st.targets[0], ast.Name) and \
                isinstance(st.value, ast.Name) and \
                st.targets[0].id == st.value.id:
            continue
        if isinstance(st, ast.If):
            st.test = _fold(st.test)
        if isinstance(st, ast.If) and isinstance(st.test, ast.Constant):
            out.extend(_tidy(st.body if st.test.value else st.orelse))
            continue
        for fld in ('body', 'orelse', 'finalbody'):
            lst = getattr(st, fld, None)
            if isinstance(lst, list) and lst and \
                    isinstance(lst[0], ast.stmt):
                new = _tidy(lst)
                if not new and fld == 'body':
                    new = [ast.Pass()]
                setattr(st, fld, new)
        for h in getattr(st, 'handlers', []) or []:
            h.body = _tidy(h.body) or [ast.Pass()]
        out.append(st)
    return out


class _Inliner:
    def __init__(self, tree, modshort, inv):
        self.tree = tree
        self.inv = inv.get(modshort)
        self.uid = 0
        self.count = 0
        self.mod_funcs = {}
        self.cls_methods = {}
        for n in tree.body:
            if isinstance(n, ast.FunctionDef):
                self.mod_funcs[n.name] = n
            elif isinstance(n, ast.ClassDef):
                self.cls_methods[n.name] = {
                    m.name: m for m in n.body
                    if isinstance(m, ast.FunctionDef)}

    def is_new(self, qual):
        return self.inv is not None and qual not in self.inv

    # -------------------------------------------------------- resolution
    def target(self, call, cls, encl_qual, nested):
        """helper FunctionDef for a call, or None"""
        f = call.func
        if isinstance(f, ast.Name):
            if f.id in nested:
                fn = nested[f.id]
                return fn, False
            fn = self.mod_funcs.get(f.id)
            if fn is not None and self.is_new(f.id):
                return fn, False
        if isinstance(f, ast.Attribute) and isinstance(f.value, ast.Name) \
                and f.value.id == 'self' and cls is not None:
            fn = self.cls_methods.get(cls, {}).get(f.attr)
            if fn is not None and self.is_new(f'{cls}.{f.attr}'):
                return fn, True
        return None, False

    # ---------------------------------------------------------- inlining
    def expand(self, call, fn, is_method, want_result, keep_returns=False,
               result_name=None):
        """-> (statements, result expression or None).  keep_returns: the
        call is the operand of a `return`, the helper's own returns stay;
        result_name: the call is assigned to this plain name."""
        if not _inlinable(fn) or any(
                isinstance(a, ast.Starred) for a in call.args) or any(
                k.arg is None for k in call.keywords):
            raise _Cannot('signature')
        params = [a.arg for a in fn.args.args]
        defaults = dict(zip(params[len(params) - len(fn.args.defaults):],
                            fn.args.defaults))
        kwonly = [a.arg for a in fn.args.kwonlyargs]
        for p, d in zip(kwonly, fn.args.kw_defaults):
            if d is not None:
                defaults[p] = d
        actual = {}
        pos = params[1:] if is_method else params
        if len(call.args) > len(pos):
            raise _Cannot('too many arguments')
        for p, a in zip(pos, call.args):
            actual[p] = a
        for k in call.keywords:
            if k.arg in actual or k.arg not in pos + kwonly:
                raise _Cannot('keyword')
            actual[k.arg] = k.value
        for p in pos + kwonly:
            if p not in actual:
                if p not in defaults:
                    raise _Cannot('missing argument')
                actual[p] = defaults[p]
        self.uid += 1
        sfx = f'__{fn.name.strip("_")}{self.uid}'
        body = [s for s in fn.body
                if not (isinstance(s, ast.Expr) and
                        isinstance(s.value, ast.Constant))]
        stored = set()
        for s in body:
            for x in ast.walk(s):
                if isinstance(x, ast.Name) and isinstance(x.ctx, (ast.Store,
                                                                  ast.Del)):
                    stored.add(x.id)
                if isinstance(x, ast.ExceptHandler) and x.name:
                    stored.add(x.name)
        pre = []
        subst, rename = {}, {}
        # how often is each parameter read?
        reads = {}
        for s in body:
            for x in ast.walk(s):
                if isinstance(x, ast.Name) and isinstance(x.ctx, ast.Load):
                    reads[x.id] = reads.get(x.id, 0) + 1
        taken = self.caller_names
        for p in pos + kwonly:
            a = actual[p]
            if _simple_arg(a) and p not in stored:
                subst[p] = a
            elif _pure_expr(a) and p not in stored and not (
                    {x.id for x in ast.walk(a) if isinstance(x, ast.Name)}
                    & stored):
                subst[p] = a
            elif isinstance(a, ast.Name) and a.id == p and \
                    p in self.target_names:
                # x = helper(x, ...): the helper's own `x` is the caller's
                pass
            else:
                nm = p if p not in taken else p + sfx
                # x = helper(<expr>, ...) with parameter x: the caller's x
                # is overwritten by the result anyway
                if nm != p and p in self.target_names and not any(
                        isinstance(x, ast.Name) and x.id == p
                        for q, b in actual.items() if q != p
                        for x in ast.walk(b)):
                    nm = p
                taken.add(nm)
                pre.append(ast.Assign(
                    targets=[ast.Name(id=nm, ctx=ast.Store())],
                    value=copy.deepcopy(a)))
                if nm != p:
                    rename[p] = nm
        for nm in sorted(stored):
            if nm in rename or nm in subst or nm == 'self' or \
                    nm in pos + kwonly:
                continue
            arg_names = {x.id for e_ in subst.values()
                         for x in ast.walk(e_) if isinstance(x, ast.Name)}
            if nm in taken and not (
                    (nm in self.target_names or self.caller_dead) and
                    nm not in arg_names):
                rename[nm] = nm + sfx
            taken.add(rename.get(nm, nm))
        # __traceback_info__ stays what it is
        rename.pop('__traceback_info__', None)
        tr = _Rename(subst, rename)
        body = [tr.visit(copy.deepcopy(s)) for s in body]
        res = None
        if keep_returns:
            stmts = list(body)
            if not _always_exits(body):
                stmts.append(ast.Return(value=ast.Constant(value=None)))
            self.count += 1
            return pre + stmts, None
        if len(body) >= 1 and isinstance(body[-1], ast.Return) and \
                not _has_return(body[:-1]):
            stmts = body[:-1]
            res = body[-1].value if body[-1].value is not None \
                else ast.Constant(value=None)
        elif not _has_return(body):
            stmts = body
            res = ast.Constant(value=None)
        else:
            rname = '_r' + sfx
            # the result is assigned at the very end of every path, so the
            # caller's target can take it directly -- unless a `finally`
            # of the helper still looks at that name afterwards
            if result_name is not None and not any(
                    isinstance(x, ast.Name) and x.id == result_name
                    for s_ in body for t_ in ast.walk(s_)
                    if isinstance(t_, ast.Try)
                    for f_ in t_.finalbody for x in ast.walk(f_)):
                rname = result_name
            stmts = _lower_returns(body, rname)
            if not _always_exits(fn.body):
                # falling off the end returns None
                stmts = [ast.Assign(
                    targets=[ast.Name(id=rname, ctx=ast.Store())],
                    value=ast.Constant(value=None))] + stmts
            res = ast.Name(id=rname, ctx=ast.Load())
        self.count += 1
        return _tidy(pre + stmts), res

    def _split_tuple_result(self, stmts, res, targets):
        """`a, b = helper()` where every return of the helper is a 2-tuple:
        the lowered `R = (x, y)` assignments become `a = x; b = y`."""
        if not (isinstance(res, ast.Name) and len(targets) == 1 and
                isinstance(targets[0], ast.Tuple) and all(
                    isinstance(t, ast.Name) for t in targets[0].elts)):
            return None
        names = [t.id for t in targets[0].elts]
        asg = []
        for s_ in stmts:
            for x in ast.walk(s_):
                if isinstance(x, ast.Assign) and any(
                        isinstance(t, ast.Name) and t.id == res.id
                        for t in x.targets):
                    asg.append(x)
                elif isinstance(x, ast.Name) and x.id == res.id and \
                        isinstance(x.ctx, ast.Load):
                    return None
        if not asg:
            return None
        for x in asg:
            if not (len(x.targets) == 1 and isinstance(x.value, ast.Tuple)
                    and len(x.value.elts) == len(names)):
                return None
            changed = [n_ for n_, e in zip(names, x.value.elts)
                       if not (isinstance(e, ast.Name) and e.id == n_)]
            for i, e in enumerate(x.value.elts):
                if any(isinstance(y, ast.Name) and y.id in names[:i] and
                       y.id in changed for y in ast.walk(e)):
                    return None

        def rewrite(lst):
            out = []
            for s_ in lst:
                for fld in ('body', 'orelse', 'finalbody'):
                    sub = getattr(s_, fld, None)
                    if isinstance(sub, list) and sub and isinstance(
                            sub[0], ast.stmt):
                        setattr(s_, fld, rewrite(sub))
                if isinstance(s_, ast.Try):
                    for h in s_.handlers:
                        h.body = rewrite(h.body)
                if s_ in asg:
                    for n_, e in zip(names, s_.value.elts):
                        a_ = ast.Assign(targets=[ast.Name(
                            id=n_, ctx=ast.Store())], value=e)
                        ast.copy_location(a_, s_)
                        out.append(a_)
                else:
                    out.append(s_)
            return out
        return rewrite(stmts)

    def single_expr(self, fn):
        body = [s for s in fn.body
                if not (isinstance(s, ast.Expr) and
                        isinstance(s.value, ast.Constant))]
        if len(body) == 1 and isinstance(body[0], ast.Return) and \
                body[0].value is not None:
            return body[0].value
        return None

    # ------------------------------------------------------------ driver
    def run(self):
        for n in self.tree.body:
            if isinstance(n, ast.FunctionDef):
                self.function(n, None, n.name)
            elif isinstance(n, ast.ClassDef):
                for m in n.body:
                    if isinstance(m, ast.FunctionDef):
                        self.function(m, n.name, f'{n.name}.{m.name}')
        if self.count:
            self.drop_dead_helpers()
        return self.count

    def drop_dead_helpers(self):
        """A new helper that is no longer referenced anywhere (every call
        was inlined) is removed: it would otherwise be judged a second
        time as a function of its own."""
        def referenced(name, skip):
            for x in ast.walk(self.tree):
                if x is skip:
                    continue
                if isinstance(x, ast.Name) and x.id == name:
                    return True
                if isinstance(x, ast.Attribute) and x.attr == name:
                    return True
                if isinstance(x, ast.Constant) and x.value == name:
                    return True
            return False

        def prune(body, prefix):
            for st in list(body):
                if isinstance(st, ast.FunctionDef) and \
                        self.is_new(prefix + st.name) and \
                        not st.name.startswith('__') and \
                        not referenced(st.name, st):
                    # references inside the helper itself do not count
                    inner = any(isinstance(x, ast.Name) and x.id == st.name
                                for x in ast.walk(st))
                    if not inner:
                        body.remove(st)
                        if not body:
                            body.append(ast.Pass())
        prune(self.tree.body, '')
        for n in self.tree.body:
            if isinstance(n, ast.ClassDef):
                prune(n.body, n.name + '.')
            if isinstance(n, ast.FunctionDef):
                prune(n.body, n.name + '.')
        for n in self.tree.body:
            if isinstance(n, ast.ClassDef):
                for m in n.body:
                    if isinstance(m, ast.FunctionDef):
                        prune(m.body, f'{n.name}.{m.name}.')

    caller_names = set()
    target_names = set()
    caller_dead = False     # the statement being expanded is a `return`

    def function(self, fn, cls, qual):
        nested = {}
        for st in fn.body:
            if isinstance(st, ast.FunctionDef) and \
                    self.is_new(f'{qual}.{st.name}'):
                nested[st.name] = st
        self.caller_names = {a.arg for a in
                             fn.args.args + fn.args.kwonlyargs}
        for st in fn.body:
            if st in nested.values():
                continue
            self.caller_names |= {x.id for x in ast.walk(st)
                                  if isinstance(x, ast.Name)}
        for _ in range(3):          # helpers calling helpers
            before = self.count
            self.block(fn, 'body', cls, qual, nested)
            if self.count == before:
                break
        for st in fn.body:
            if isinstance(st, ast.FunctionDef) and st.name not in nested:
                self.function(st, cls, f'{qual}.{st.name}')

    def block(self, node, fld, cls, qual, nested):
        lst = getattr(node, fld, None)
        if not isinstance(lst, list):
            return
        i = 0
        while i < len(lst):
            st = lst[i]
            new = None
            try:
                new = self.statement(st, cls, qual, nested)
            except _Cannot:
                new = None
            if new is not None:
                for x in new:
                    ast.copy_location(x, st)
                    for y in ast.walk(x):
                        if not hasattr(y, 'lineno') or True:
                            if isinstance(y, (ast.stmt, ast.expr)):
                                y.lineno = st.lineno
                                y.end_lineno = getattr(st, 'end_lineno',
                                                       st.lineno)
                                y.col_offset = st.col_offset
                                y.end_col_offset = getattr(
                                    st, 'end_col_offset', 0)
                lst[i:i + 1] = new
                i += len(new)
                continue
            if isinstance(st, (ast.FunctionDef, ast.ClassDef)):
                i += 1
                continue
            # expression helpers anywhere inside the statement
            self.expressions(st, cls, qual, nested)
            for f2 in ('body', 'orelse', 'finalbody'):
                self.block(st, f2, cls, qual, nested)
            for h in getattr(st, 'handlers', []) or []:
                self.block(h, 'body', cls, qual, nested)
            i += 1

    def statement(self, st, cls, qual, nested):
        """Replacement statements when `st` is a call of a new helper in
        one of the supported positions."""
        call = None
        mode = None
        self.target_names = set()
        self.caller_dead = isinstance(st, ast.Return)
        if isinstance(st, ast.Assign) and len(st.targets) == 1 and \
                isinstance(st.targets[0], ast.Name):
            self.target_names = {st.targets[0].id}
        elif isinstance(st, ast.Assign) and len(st.targets) == 1 and \
                isinstance(st.targets[0], ast.Tuple) and all(
                    isinstance(e, ast.Name) for e in st.targets[0].elts):
            self.target_names = {e.id for e in st.targets[0].elts}
        if isinstance(st, ast.Assign) and isinstance(st.value, ast.Call):
            call, mode = st.value, 'assign'
        elif isinstance(st, ast.Return) and isinstance(st.value, ast.Call):
            call, mode = st.value, 'return'
        elif isinstance(st, ast.Expr) and isinstance(st.value, ast.Call):
            call, mode = st.value, 'expr'
        elif isinstance(st, ast.For) and isinstance(st.iter, ast.Call):
            # for x in helper(...): the iterable is computed once, before
            # the loop
            fn2, ism = self.target(st.iter, cls, qual, nested)
            if fn2 is not None and self.single_expr(fn2) is None:
                stmts, res = self.expand(st.iter, fn2, ism, True)
                if not isinstance(res, (ast.Name, ast.Constant)):
                    self.uid += 1
                    tmp = f'_t__{fn2.name.strip("_")}{self.uid}'
                    stmts = stmts + [ast.Assign(
                        targets=[ast.Name(id=tmp, ctx=ast.Store())],
                        value=res)]
                    res = ast.Name(id=tmp, ctx=ast.Load())
                st.iter = res
                return stmts + [st]
            return None
        elif isinstance(st, ast.If):
            t = st.test
            neg = 0
            while isinstance(t, ast.UnaryOp) and isinstance(t.op, ast.Not):
                t = t.operand
                neg += 1
            if isinstance(t, ast.Compare) and len(t.ops) == 1 and \
                    isinstance(t.left, ast.Call):
                call, mode = t.left, 'if'
            elif isinstance(t, ast.Call):
                call, mode = t, 'if'
            elif isinstance(t, ast.BoolOp) and \
                    isinstance(t.values[0], ast.Call):
                call, mode = t.values[0], 'if'
        fn = None
        if call is not None:
            fn, is_method = self.target(call, cls, qual, nested)
        if call is None and isinstance(st, (ast.Return, ast.Assign)) and \
                isinstance(st.value, ast.Tuple):
            # (plain, ..., HELPER(...), ...): hoist the first helper call
            def plain0(e):
                return isinstance(e, (ast.Constant, ast.Name)) or (
                    isinstance(e, ast.Attribute) and plain0(e.value))
            for i, a in enumerate(st.value.elts):
                if plain0(a):
                    continue
                if isinstance(a, ast.Call):
                    fn2, ism = self.target(a, cls, qual, nested)
                    if fn2 is not None and self.single_expr(fn2) is None:
                        stmts, res = self.expand(a, fn2, ism, True)
                        if not isinstance(res, (ast.Name, ast.Constant)):
                            self.uid += 1
                            tmp = f'_t__{fn2.name.strip("_")}{self.uid}'
                            stmts = stmts + [ast.Assign(
                                targets=[ast.Name(id=tmp, ctx=ast.Store())],
                                value=res)]
                            res = ast.Name(id=tmp, ctx=ast.Load())
                        st.value.elts[i] = res
                        return stmts + [st]
                break
            return None
        if fn is None and mode in ('assign', 'return', 'expr'):
            # outer(simple..., HELPER(...), ...): the helper call is an
            # argument of the statement's call and everything evaluated
            # before it is a plain name / attribute / constant
            outer = call

            def plain(e):
                return isinstance(e, (ast.Constant, ast.Name)) or (
                    isinstance(e, ast.Attribute) and plain(e.value))
            if plain(outer.func):
                for a in outer.args:
                    if plain(a):
                        continue
                    if isinstance(a, ast.Call):
                        fn, is_method = self.target(a, cls, qual, nested)
                        if fn is not None and self.single_expr(fn) is None:
                            stmts, res = self.expand(a, fn, is_method, True)
                            if not isinstance(res, (ast.Name,
                                                    ast.Constant)):
                                self.uid += 1
                                tmp = f'_t__{fn.name.strip("_")}{self.uid}'
                                stmts = stmts + [ast.Assign(
                                    targets=[ast.Name(id=tmp,
                                                      ctx=ast.Store())],
                                    value=res)]
                                res = ast.Name(id=tmp, ctx=ast.Load())
                            outer.args[outer.args.index(a)] = res
                            return stmts + [st]
                    break
            return None
        if call is None or fn is None:
            return None
        if self.single_expr(fn) is not None and mode == 'if':
            return None         # handled by expression substitution
        # arguments must not themselves need hoisting
        if mode == 'return':
            stmts, res = self.expand(call, fn, is_method, True,
                                     keep_returns=True)
            return stmts
        rn = None
        if mode == 'assign' and len(st.targets) == 1 and \
                isinstance(st.targets[0], ast.Name):
            rn = st.targets[0].id
        stmts, res = self.expand(call, fn, is_method, True, result_name=rn)
        if mode == 'assign':
            if isinstance(res, ast.Name) and res.id == rn:
                return stmts
            split = self._split_tuple_result(stmts, res, st.targets)
            if split is not None:
                return split
            return stmts + [ast.Assign(targets=st.targets, value=res)]
        if mode == 'expr':
            if isinstance(res, ast.Constant) or isinstance(res, ast.Name):
                return stmts or [ast.Pass()]
            return stmts + [ast.Expr(value=res)]
        # mode == 'if': hoist, then test the result
        if not isinstance(res, (ast.Name, ast.Constant)):
            self.uid += 1
            tmp = f'_t__{fn.name.strip("_")}{self.uid}'
            stmts = stmts + [ast.Assign(
                targets=[ast.Name(id=tmp, ctx=ast.Store())], value=res)]
            res = ast.Name(id=tmp, ctx=ast.Load())

        class _Swap(ast.NodeTransformer):
            def visit_Call(s2, node):
                if node is call:
                    return res
                return s2.generic_visit(node)
        st.test = _Swap().visit(st.test)
        return stmts + [st]

    def expressions(self, st, cls, qual, nested):
        """Substitute single-expression helpers inside st's own
        expressions (not inside nested statement lists)."""
        inl = self

        class _Sub(ast.NodeTransformer):
            def visit_Call(s2, node):
                node = s2.generic_visit(node)
                fn, is_method = inl.target(node, cls, qual, nested)
                if fn is None:
                    return node
                e = inl.single_expr(fn)
                if e is None or not _inlinable(fn):
                    return node
                params = [a.arg for a in fn.args.args]
                pos = params[1:] if is_method else params
                if node.keywords or len(node.args) != len(pos):
                    return node
                reads = {}
                for x in ast.walk(e):
                    if isinstance(x, ast.Name):
                        reads[x.id] = reads.get(x.id, 0) + 1
                subst = {}
                for p, a in zip(pos, node.args):
                    if not _simple_arg(a) and reads.get(p, 0) != 1:
                        return node
                    subst[p] = a
                # names bound inside the expression (comprehensions) must
                # not clash: leave such helpers alone
                if any(isinstance(x, (ast.comprehension, ast.Lambda,
                                      ast.NamedExpr)) for x in ast.walk(e)):
                    return node
                inl.count += 1
                return _Rename(subst, {}).visit(copy.deepcopy(e))

            def visit_FunctionDef(s2, node):
                return node
            visit_Lambda = visit_ClassDef = visit_FunctionDef
        for fld, val in ast.iter_fields(st):
            if fld in ('body', 'orelse', 'finalbody', 'handlers', 'cases'):
                continue
            if isinstance(val, ast.AST):
                setattr(st, fld, _Sub().visit(val))
            elif isinstance(val, list):
                setattr(st, fld, [_Sub().visit(v) if isinstance(v, ast.AST)
                                  else v for v in val])


def inline_new_helpers(tree, modshort):
    """-> number of call sites inlined"""
    if os.environ.get('DTVERIF_NO_INLINE'):
        return 0
    try:
        inv = inventory()
    except OSError:
        return 0
    n = _Inliner(tree, modshort, inv).run()
    if n:
        for fn in ast.walk(tree):
            if isinstance(fn, (ast.FunctionDef, ast.AsyncFunctionDef)):
                _coalesce_copies(fn)
        _drop_identity_copies(tree)
        ast.fix_missing_locations(tree)
    return n


def _drop_identity_copies(tree):
    """`a, b = (a, b)` (what is left of a helper returning the caller's own
    names) is a no-op."""
    for node in ast.walk(tree):
        for fld in ('body', 'orelse', 'finalbody'):
            lst = getattr(node, fld, None)
            if not (isinstance(lst, list) and lst and
                    isinstance(lst[0], ast.stmt)):
                continue
            keep = []
            for st in lst:
                if isinstance(st, ast.Assign) and len(st.targets) == 1 and \
                        isinstance(st.targets[0], ast.Tuple) and \
                        isinstance(st.value, ast.Tuple) and \
                        len(st.targets[0].elts) == len(st.value.elts) and \
                        all(isinstance(a, ast.Name) and
                            isinstance(b, ast.Name) and a.id == b.id
                            for a, b in zip(st.targets[0].elts,
                                            st.value.elts)):
                    continue
                keep.append(st)
            if len(keep) != len(lst):
                setattr(node, fld, keep or [ast.Pass()])


def _coalesce_copies(fn):
    """After a helper that returns a tuple was inlined the caller holds
    `a, b, c = (x, y, z)` with plain names on both sides: the renaming the
    call performed.  Where x is used only before that statement and a only
    after it, x is renamed to a throughout and the pair is dropped, so that
    rules which derive the role of a local from where it is published see
    one name for one value."""
    body = fn.body

    def names_in(stmts, ctxs=(ast.Load, ast.Store, ast.Del)):
        out = {}
        for st in stmts:
            for x in ast.walk(st):
                if isinstance(x, ast.Name) and isinstance(x.ctx, ctxs):
                    out[x.id] = out.get(x.id, 0) + 1
                if isinstance(x, ast.ExceptHandler) and x.name:
                    out[x.name] = out.get(x.name, 0) + 1
        return out
    params = {a.arg for a in fn.args.posonlyargs + fn.args.args +
              fn.args.kwonlyargs}
    i = 0
    while i < len(body):
        st = body[i]
        if not (isinstance(st, ast.Assign) and len(st.targets) == 1 and
                isinstance(st.targets[0], ast.Tuple) and
                isinstance(st.value, ast.Tuple) and
                len(st.targets[0].elts) == len(st.value.elts) and
                all(isinstance(e, ast.Name) for e in st.targets[0].elts) and
                all(isinstance(e, ast.Name) for e in st.value.elts)):
            i += 1
            continue
        before = names_in(body[:i])
        after = names_in(body[i + 1:])
        tg = [e.id for e in st.targets[0].elts]
        sr = [e.id for e in st.value.elts]
        keep_t, keep_s = [], []
        ren = {}
        for t, s_ in zip(tg, sr):
            if t == s_:
                continue
            ok = t not in before and s_ not in after and t not in params \
                and s_ not in params and sr.count(s_) == 1 and \
                tg.count(t) == 1 and s_ not in tg and t not in sr
            if ok:
                ren[s_] = t
            else:
                keep_t.append(t)
                keep_s.append(s_)
        if not ren:
            i += 1
            continue
        for prev in body[:i]:
            for x in ast.walk(prev):
                if isinstance(x, ast.Name) and x.id in ren:
                    x.id = ren[x.id]
        if keep_t:
            st.targets[0].elts = [ast.Name(id=t, ctx=ast.Store())
                                  for t in keep_t]
            st.value.elts = [ast.Name(id=s_, ctx=ast.Load())
                             for s_ in keep_s]
            i += 1
        else:
            del body[i]


# ------------------------------------------------------------------ N3
def desugar_first_match(tree):
    """N3: `next((E for T in IT if C), D)` is the first-match loop

        for T in IT:                      for T in IT:
            if C: return E          or        if C: X = E; break
        return D                          else: X = D

    written as an expression.  The path-following rules (and the flow
    interpreter, which has no generator semantics) see the loop.  Only
    `return next(...)` and `X = next(...)` statements with a one-generator
    generator expression and an explicit default are rewritten."""
    n_done = 0

    def match(call):
        if isinstance(call, ast.Call) and isinstance(call.func, ast.Name) \
                and call.func.id == 'next' and len(call.args) == 2 and \
                not call.keywords and isinstance(
                    call.args[0], ast.GeneratorExp) and \
                len(call.args[0].generators) == 1 and \
                not call.args[0].generators[0].is_async:
            return call.args[0], call.args[1]
        return None

    def rewrite(body, fn_names):
        nonlocal n_done
        out = []
        for st in body:
            for fld in ('body', 'orelse', 'finalbody'):
                sub = getattr(st, fld, None)
                if isinstance(sub, list) and sub and not isinstance(
                        st, (ast.FunctionDef, ast.AsyncFunctionDef,
                             ast.ClassDef)):
                    setattr(st, fld, rewrite(sub, fn_names))
            if isinstance(st, ast.Try):
                for h in st.handlers:
                    h.body = rewrite(h.body, fn_names)
            m = None
            if isinstance(st, ast.Return) and st.value is not None:
                m = match(st.value)
            elif isinstance(st, ast.Assign) and len(st.targets) == 1 and \
                    isinstance(st.targets[0], ast.Name):
                m = match(st.value)
            if m is None:
                out.append(st)
                continue
            gen, default = m
            g = gen.generators[0]
            tnames = {x.id for x in ast.walk(g.target)
                      if isinstance(x, ast.Name)}
            if tnames & fn_names:
                out.append(st)       # would capture a local of the function
                continue
            test = None
            if g.ifs:
                test = g.ifs[0] if len(g.ifs) == 1 else ast.BoolOp(
                    op=ast.And(), values=list(g.ifs))
            if isinstance(st, ast.Return):
                hit = [ast.Return(value=gen.elt)]
                inner = [ast.If(test=test, body=hit, orelse=[])] \
                    if test is not None else hit
                new = [ast.For(target=g.target, iter=g.iter, body=inner,
                               orelse=[], type_comment=None),
                       ast.Return(value=default)]
            else:
                tgt = st.targets[0]
                hit = [ast.Assign(targets=[ast.Name(id=tgt.id,
                                                    ctx=ast.Store())],
                                  value=gen.elt, type_comment=None),
                       ast.Break()]
                inner = [ast.If(test=test, body=hit, orelse=[])] \
                    if test is not None else hit
                new = [ast.For(
                    target=g.target, iter=g.iter, body=inner,
                    orelse=[ast.Assign(targets=[ast.Name(
                        id=tgt.id, ctx=ast.Store())], value=default,
                        type_comment=None)], type_comment=None)]
            for x in ast.walk(g.target):
                if isinstance(x, ast.Name):
                    x.ctx = ast.Store()
            for nn in new:
                ast.copy_location(nn, st)
                ast.fix_missing_locations(nn)
            out += new
            n_done += 1
        return out

    for fn in ast.walk(tree):
        if isinstance(fn, (ast.FunctionDef, ast.AsyncFunctionDef)):
            names = set()
            for x in ast.walk(fn):
                if isinstance(x, ast.GeneratorExp):
                    continue
            # names bound or read in the function outside generator
            # expressions
            def collect(n, acc):
                if isinstance(n, (ast.GeneratorExp, ast.ListComp,
                                  ast.SetComp, ast.DictComp)):
                    return
                if isinstance(n, ast.Name):
                    acc.add(n.id)
                if isinstance(n, ast.arg):
                    acc.add(n.arg)
                for c in ast.iter_child_nodes(n):
                    collect(c, acc)
            collect(fn, names)
            fn.body = rewrite(fn.body, names)
    return n_done


# ------------------------------------------------------------------ N4
def expand_constant_kwargs(tree):
    """N4: `f(a, **TABLE)` where TABLE is a module-level name bound once to
    `dict(k=v, ...)` or `{'k': v, ...}` (text keys) and used nowhere else
    than as `**TABLE` is the call with those keyword arguments written out.
    Rules that read the options a constructor accepts from the keywords of
    its parse_params call see the same call either way."""
    cands = {}
    for st in tree.body:
        if isinstance(st, ast.Assign) and len(st.targets) == 1 and \
                isinstance(st.targets[0], ast.Name):
            v = st.value
            kws = None
            if isinstance(v, ast.Call) and isinstance(v.func, ast.Name) and \
                    v.func.id == 'dict' and not v.args and v.keywords and \
                    all(k.arg is not None for k in v.keywords):
                kws = [(k.arg, k.value) for k in v.keywords]
            elif isinstance(v, ast.Dict) and v.keys and all(
                    isinstance(k, ast.Constant) and isinstance(k.value, str)
                    and k.value.isidentifier() for k in v.keys):
                kws = [(k.value, x) for k, x in zip(v.keys, v.values)]
            if kws is not None:
                if st.targets[0].id in cands:
                    cands[st.targets[0].id] = None
                else:
                    cands[st.targets[0].id] = (st, kws)
    cands = {k: v for k, v in cands.items() if v}
    if not cands:
        return 0
    star_uses = {}
    other = set()
    for n in ast.walk(tree):
        if isinstance(n, ast.Call):
            for k in n.keywords:
                if k.arg is None and isinstance(k.value, ast.Name) and \
                        k.value.id in cands:
                    star_uses.setdefault(k.value.id, []).append((n, k))
                    k.value._dt_star = True
    for n in ast.walk(tree):
        if isinstance(n, ast.Name) and n.id in cands and \
                not getattr(n, '_dt_star', False):
            st, _ = cands[n.id]
            if n is not st.targets[0]:
                other.add(n.id)
    done = 0
    for name, uses in star_uses.items():
        if name in other:
            continue
        _, kws = cands[name]
        for call, k in uses:
            i = call.keywords.index(k)
            new = []
            for arg, val in kws:
                kw = ast.keyword(arg=arg, value=copy.deepcopy(val))
                ast.copy_location(kw, k)
                for x in ast.walk(kw.value):
                    ast.copy_location(x, k.value)
                new.append(kw)
            call.keywords[i:i + 1] = new
            done += 1
    if done:
        ast.fix_missing_locations(tree)
    return done


# ------------------------------------------------------------------ N5
def _unroll_simple(e):
    if isinstance(e, ast.Constant):
        return True
    if isinstance(e, ast.Name):
        return True
    if isinstance(e, ast.Attribute):
        return _unroll_simple(e.value)
    return False


def unroll_constant_loops(tree):
    """N5: `for X in (e1, ..., en): BODY` over a literal tuple / list of at
    most 8 simple expressions (names, attribute chains, constants, or
    tuples of those matched by a tuple target), or over a module-level name
    bound once to such a literal, is BODY[X := e1]; ...; BODY[X := en].
    Only loops without break / continue / else whose variable is not
    re-bound in the body; a `setattr(self, '<const>', v)` that results is
    written `self.<const> = v`.  Rules that classify what is pushed,
    copied or applied per option see the straight-line code either way.
    (Applied in the inlined view only.)"""
    consts = {}
    for st in tree.body:
        if isinstance(st, ast.Assign) and len(st.targets) == 1 and \
                isinstance(st.targets[0], ast.Name) and isinstance(
                    st.value, (ast.Tuple, ast.List)):
            nm = st.targets[0].id
            consts[nm] = None if nm in consts else st.value
    stores = {}
    for x in ast.walk(tree):
        if isinstance(x, ast.Name) and isinstance(x.ctx, (ast.Store,
                                                          ast.Del)):
            stores[x.id] = stores.get(x.id, 0) + 1
    consts = {k: v for k, v in consts.items()
              if v is not None and stores.get(k) == 1}
    done = [0]

    def elements(it):
        if isinstance(it, ast.Name) and it.id in consts:
            it = consts[it.id]
        if isinstance(it, (ast.Tuple, ast.List)) and 1 <= len(it.elts) <= 8:
            return it.elts
        return None

    def unroll(loop):
        if loop.orelse:
            return None
        els = elements(loop.iter)
        if els is None:
            return None
        tgt = loop.target
        if isinstance(tgt, ast.Name):
            names = [tgt.id]
            if not all(_unroll_simple(e) for e in els):
                return None
        elif isinstance(tgt, ast.Tuple) and all(
                isinstance(t, ast.Name) for t in tgt.elts):
            names = [t.id for t in tgt.elts]
            if not all(isinstance(e, ast.Tuple) and
                       len(e.elts) == len(names) and
                       all(_unroll_simple(y) for y in e.elts) for e in els):
                return None
        else:
            return None
        if len(loop.body) > 25:
            return None
        for s in loop.body:
            for x in ast.walk(s):
                if isinstance(x, ast.Name) and x.id in names and \
                        isinstance(x.ctx, (ast.Store, ast.Del)):
                    return None
        # break / continue that belong to this loop

        def own_jumps(stmts):
            for s in stmts:
                if isinstance(s, (ast.Break, ast.Continue)):
                    return True
                if isinstance(s, (ast.For, ast.While, ast.FunctionDef,
                                  ast.AsyncFunctionDef, ast.ClassDef)):
                    continue
                for fld in ('body', 'orelse', 'finalbody'):
                    sub = getattr(s, fld, None)
                    if isinstance(sub, list) and own_jumps(sub):
                        return True
                if isinstance(s, ast.Try):
                    for h in s.handlers:
                        if own_jumps(h.body):
                            return True
            return False
        if own_jumps(loop.body):
            return None
        out = []
        for e in els:
            vals = [e] if len(names) == 1 and not isinstance(
                tgt, ast.Tuple) else list(e.elts)
            sub = dict(zip(names, vals))
            tr = _Rename(sub, {})
            for s in loop.body:
                c = tr.visit(copy.deepcopy(s))
                for x in ast.walk(c):
                    if hasattr(x, 'lineno'):
                        pass
                out.append(c)
        # the loop variable keeps its last value
        last = els[-1]
        out.append(ast.copy_location(ast.Assign(
            targets=[copy.deepcopy(tgt)], value=copy.deepcopy(last)), loop))
        done[0] += 1
        return out

    def rewrite(body):
        res = []
        for st in body:
            for fld in ('body', 'orelse', 'finalbody'):
                sub = getattr(st, fld, None)
                if isinstance(sub, list) and sub and isinstance(
                        sub[0], ast.stmt):
                    setattr(st, fld, rewrite(sub))
            if isinstance(st, ast.Try):
                for h in st.handlers:
                    h.body = rewrite(h.body)
            if isinstance(st, ast.For):
                u = unroll(st)
                if u is not None:
                    res.extend(u)
                    continue
            res.append(st)
        return res
    tree.body = rewrite(tree.body)
    if done[0]:
        # setattr(self, 'name', v)  ->  self.name = v
        class _SA(ast.NodeTransformer):
            def visit_Expr(self, node):
                c = node.value
                if isinstance(c, ast.Call) and isinstance(
                        c.func, ast.Name) and c.func.id == 'setattr' and \
                        len(c.args) == 3 and not c.keywords and isinstance(
                            c.args[1], ast.Constant) and isinstance(
                            c.args[1].value, str) and \
                        c.args[1].value.isidentifier():
                    return ast.copy_location(ast.Assign(
                        targets=[ast.Attribute(value=c.args[0],
                                               attr=c.args[1].value,
                                               ctx=ast.Store())],
                        value=c.args[2]), node)
                return node
        _SA().visit(tree)
        ast.fix_missing_locations(tree)
    return done[0]


# ------------------------------------------------------------------ N6
def resugar_locks(tree):
    """N6: `L.acquire()` directly followed by `try: BODY finally:
    L.release()` is `with L: BODY`; a local alias bound once to a
    module-level name (`lock = COOKLOCK`) is written back.  The lock rules
    look for the `with` form."""
    done = 0
    modnames = {t.id for st in tree.body if isinstance(st, ast.Assign)
                for t in st.targets if isinstance(t, ast.Name)}
    for fn in [x for x in ast.walk(tree)
               if isinstance(x, (ast.FunctionDef, ast.AsyncFunctionDef))]:
        alias = {}
        cnt = {}
        for x in ast.walk(fn):
            if isinstance(x, ast.Name) and isinstance(x.ctx, ast.Store):
                cnt[x.id] = cnt.get(x.id, 0) + 1
        for x in ast.walk(fn):
            if isinstance(x, ast.Assign) and len(x.targets) == 1 and \
                    isinstance(x.targets[0], ast.Name) and isinstance(
                        x.value, ast.Name) and x.value.id in modnames and \
                    cnt.get(x.targets[0].id) == 1:
                alias[x.targets[0].id] = x.value.id
        for node in ast.walk(fn):
            for fld in ('body', 'orelse', 'finalbody'):
                lst = getattr(node, fld, None)
                if not (isinstance(lst, list) and len(lst) >= 2 and
                        isinstance(lst[0], ast.stmt)):
                    continue
                i = 0
                while i + 1 < len(lst):
                    a, b = lst[i], lst[i + 1]

                    def lock_call(st, meth):
                        if isinstance(st, ast.Expr) and isinstance(
                                st.value, ast.Call) and isinstance(
                                st.value.func, ast.Attribute) and \
                                st.value.func.attr == meth and \
                                not st.value.args:
                            return ast.unparse(st.value.func.value)
                        return None
                    la = lock_call(a, 'acquire')
                    if la is not None and isinstance(b, ast.Try) and \
                            not b.handlers and not b.orelse and \
                            len(b.finalbody) == 1 and \
                            lock_call(b.finalbody[0], 'release') == la:
                        ctx = a.value.func.value
                        if isinstance(ctx, ast.Name) and ctx.id in alias:
                            ctx = ast.Name(id=alias[ctx.id], ctx=ast.Load())
                        w = ast.With(items=[ast.withitem(
                            context_expr=ctx, optional_vars=None)],
                            body=b.body)
                        ast.copy_location(w, a)
                        lst[i:i + 2] = [w]
                        done += 1
                    i += 1
    if done:
        ast.fix_missing_locations(tree)
    return done
