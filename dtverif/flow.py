"""E1/E2 -- structured, path-sensitive interpretation of a function body.

Evaluating a statement list in an abstract state yields a set of outcomes
``(kind, state, exc, node)`` with kind in normal/return/raise/break/continue.
This is the function's CFG with `finally` bodies duplicated per continuation,
without materialising the graph.  Loops iterate to a fixpoint over the set of
states seen at the loop head (client domains are finite).  A client supplies a
`Domain`: the abstract state (hashable via .key()), transfer functions for
simple statements, branch refinement and the may-raise model.
"""
import ast

NORMAL, RETURN, RAISE, BREAK, CONT = \
    'normal', 'return', 'raise', 'break', 'continue'

# tiny exception hierarchy: enough for the distinctions the rules need
EXC_PARENTS = {
    'KeyError': 'LookupError', 'IndexError': 'LookupError',
    'LookupError': 'Exception', 'AttributeError': 'Exception',
    'TypeError': 'Exception', 'ValueError': 'Exception',
    'UnicodeError': 'ValueError', 'NameError': 'Exception',
    'SyntaxError': 'Exception', 'SystemError': 'Exception',
    'ZeroDivisionError': 'ArithmeticError', 'ArithmeticError': 'Exception',
    'StopIteration': 'Exception', 'RuntimeError': 'Exception',
    'ModuleNotFoundError': 'ImportError', 'ImportError': 'Exception',
    'ParseError': 'Exception', 'DTReturn': 'Exception',
    'ValidationError': 'Exception', 'Unauthorized': 'Exception',
    'InvalidErrorTypeExpression': 'Exception',
    'Exception': 'BaseException', 'BaseException': None,
}
ANY = '*'          # unknown exception (any subclass of Exception)


def is_subclass(name, base):
    seen = 0
    while name is not None and seen < 12:
        if name == base:
            return True
        name = EXC_PARENTS.get(name, 'Exception' if name != 'BaseException'
                               else None)
        seen += 1
    return False


def handler_names(h):
    """Names a handler catches; [] for a bare except."""
    if h.type is None:
        return []
    if isinstance(h.type, ast.Tuple):
        return [_last_name(e) for e in h.type.elts]
    return [_last_name(h.type)]


def _last_name(e):
    if isinstance(e, ast.Name):
        return e.id
    if isinstance(e, ast.Attribute):
        return e.attr
    return '?'


def handler_catches(h, exc):
    """-> 'yes' | 'no' | 'maybe' for exception label exc."""
    names = handler_names(h)
    if not names:
        return 'yes'
    if exc == ANY:
        if any(n in ('Exception', 'BaseException') for n in names):
            return 'yes'
        return 'maybe'
    for n in names:
        if is_subclass(exc, n):
            return 'yes'
    # an unknown-but-named exception class (not in the table) derived from
    # Exception: caught by Exception/BaseException only
    return 'no'


class Outcome:
    __slots__ = ('kind', 'state', 'exc', 'node')

    def __init__(self, kind, state, exc=None, node=None):
        self.kind = kind
        self.state = state
        self.exc = exc
        self.node = node

    def key(self):
        return (self.kind, self.exc, self.state.key(),
                id(self.node) if self.kind in (RETURN, RAISE) else 0)

    def __repr__(self):
        return f'<{self.kind} {self.exc or ""} {self.state.key()!r}>'


class BaseState:
    """States must offer key(), copy() and a trace (excluded from key)."""
    trace = ()

    def key(self):
        raise NotImplementedError

    def copy(self):
        raise NotImplementedError

    def at(self, node):
        ln = getattr(node, 'lineno', None)
        if ln is None or (self.trace and self.trace[-1] == ln):
            return self
        n = self.copy()
        n.trace = (self.trace + (ln,))[-60:]
        return n


class Domain:
    """Client interface; defaults implement a state-less may-raise model."""

    def simple(self, stmt, state):
        """Outcomes of a simple statement (Assign/AugAssign/AnnAssign/Expr/
        Delete/Assert/Import/Pass/Global ...).  Default: may raise (ANY) if
        may_raise(stmt), then normal with effects applied."""
        outs = []
        for exc in self.raises(stmt, state):
            outs.append(Outcome(RAISE, state, exc, stmt))
        ns = self.effects(stmt, state)
        if ns is not None:
            outs.append(Outcome(NORMAL, ns))
        return outs

    def raises(self, node, state):
        """Exception labels node may raise *before* its effects."""
        return []

    def effects(self, stmt, state):
        return state

    def branch(self, test, state):
        """-> list of (bool, state)"""
        return [(True, state), (False, state)]

    def for_target(self, node, state):
        """State at the start of one iteration of a for loop."""
        return state

    def for_may_skip(self, node, state):
        """May the loop body execute zero times / stop here?"""
        return True

    def enter_handler(self, handler, state, exc):
        return state

    def on_return(self, node, state):
        """Effects/raises of evaluating a return value.
        -> (list of exc labels, new state)"""
        if node.value is None:
            return [], state
        return self.raises(node.value, state), self.effects(node, state)

    def on_raise(self, node, state):
        """Label of an explicit raise statement."""
        if node.exc is None:
            return getattr(state, 'cur_exc', None) or ANY
        e = node.exc
        if isinstance(e, ast.Call):
            e = e.func
        n = _last_name(e)
        if n in EXC_PARENTS:
            return n
        return n if n != '?' else ANY

    def with_enter(self, node, state):
        return state

    def loop_head(self, node, state):
        """Applied to every state reaching a loop head (entry and back
        edges); typically forgets facts about variables the body assigns."""
        return state

    def widen(self, state, head_states):
        """Called when a new loop-head state appears; may return a widened
        state or None to stop exploring it (caller reports)."""
        return state


class Interp:
    def __init__(self, domain, max_states=20000):
        self.d = domain
        self.max_states = max_states
        self.nstates = 0
        self.overflow = False

    # ------------------------------------------------------------ helpers
    @staticmethod
    def dedup(outs):
        seen = {}
        for o in outs:
            seen.setdefault(o.key(), o)
        return list(seen.values())

    def run(self, fn_node, state):
        return self.dedup(self.block(fn_node.body, state))

    def block(self, stmts, state):
        cur = [state]
        outs = []
        for s in stmts:
            nxt = {}
            for c in cur:
                for o in self.stmt(s, c):
                    if o.kind == NORMAL:
                        nxt.setdefault(o.state.key(), o.state)
                    else:
                        outs.append(o)
            cur = list(nxt.values())
            if not cur:
                break
        outs += [Outcome(NORMAL, c) for c in cur]
        return outs

    def branch(self, test, state):
        """Lower and/or/not to branches, then ask the domain for leaves.
        Also yields raise outcomes of the test through self._test_raises."""
        if isinstance(test, ast.UnaryOp) and isinstance(test.op, ast.Not):
            return [(not b, s) for b, s in self.branch(test.operand, state)]
        if isinstance(test, ast.BoolOp):
            is_and = isinstance(test.op, ast.And)
            res = [(True, state)] if is_and else [(False, state)]
            for v in test.values:
                nxt = []
                for b, s in res:
                    if b == is_and:
                        nxt += self.branch(v, s)
                    else:
                        nxt.append((b, s))
                res = nxt
            return res
        return self.d.branch(test, state)

    # ---------------------------------------------------------- statements
    def stmt(self, node, state):
        self.nstates += 1
        if self.nstates > self.max_states:
            self.overflow = True
            return []
        st = state.at(node)
        d = self.d
        if isinstance(node, ast.Return):
            excs, ns = d.on_return(node, st)
            outs = [Outcome(RAISE, st, e, node) for e in excs]
            if ns is not None:
                outs.append(Outcome(RETURN, ns, None, node))
            return outs
        if isinstance(node, ast.Raise):
            outs = []
            if node.exc is not None:
                for e in d.raises(node.exc, st):
                    outs.append(Outcome(RAISE, st, e, node))
            outs.append(Outcome(RAISE, st, d.on_raise(node, st), node))
            return outs
        if isinstance(node, ast.Break):
            return [Outcome(BREAK, st)]
        if isinstance(node, ast.Continue):
            return [Outcome(CONT, st)]
        if isinstance(node, (ast.FunctionDef, ast.AsyncFunctionDef,
                             ast.ClassDef)):
            ns = d.effects(node, st)
            return [Outcome(NORMAL, ns if ns is not None else st)]
        if isinstance(node, ast.If):
            outs = [Outcome(RAISE, st, e, node.test)
                    for e in d.raises(node.test, st)]
            for b, s in self.branch(node.test, st):
                outs += self.block(node.body if b else node.orelse, s)
            return self.dedup(outs)
        if isinstance(node, (ast.While, ast.For)):
            return self.loop(node, st)
        if isinstance(node, ast.With):
            outs = []
            for it in node.items:
                for e in d.raises(it.context_expr, st):
                    outs.append(Outcome(RAISE, st, e, node))
            ns = d.with_enter(node, st)
            outs += self.block(node.body, ns)
            return self.dedup(outs)
        if isinstance(node, ast.Try):
            return self.try_(node, st)
        if isinstance(node, ast.Match):
            outs = []
            for c in node.cases:
                outs += self.block(c.body, st)
            outs.append(Outcome(NORMAL, st))
            return self.dedup(outs)
        return d.simple(node, st)

    def loop(self, node, st):
        d = self.d
        st = d.loop_head(node, st)
        head = {st.key(): st}
        work = [st]
        exits = []
        is_for = isinstance(node, ast.For)
        while work:
            s = work.pop()
            if is_for:
                for e in d.raises(node.iter, s):
                    exits.append(Outcome(RAISE, s, e, node))
                branches = [(True, d.for_target(node, s))]
                if d.for_may_skip(node, s):
                    branches.append((False, s))
            else:
                for e in d.raises(node.test, s):
                    exits.append(Outcome(RAISE, s, e, node))
                branches = self.branch(node.test, s)
            for b, sb in branches:
                if not b:
                    exits += self.block(node.orelse, sb)
                    continue
                for o in self.block(node.body, sb):
                    if o.kind in (NORMAL, CONT):
                        ns = d.loop_head(node, o.state)
                        if ns.key() not in head:
                            ns = d.widen(ns, head)
                            if ns is None:
                                continue
                        if ns.key() not in head:
                            head[ns.key()] = ns
                            work.append(ns)
                    elif o.kind == BREAK:
                        exits.append(Outcome(NORMAL, o.state))
                    else:
                        exits.append(o)
        return self.dedup(exits)

    def try_(self, node, st):
        d = self.d
        body = self.block(node.body, st)
        res = []
        else_on_exit = getattr(node, '_dt_else_on_exit', False)
        for o in body:
            if o.kind == NORMAL:
                res += self.block(node.orelse, o.state)
            elif else_on_exit and o.kind in (RETURN, BREAK, CONT):
                # normalise.N1b: clean-up of a contextmanager generator
                # runs on every non-raising exit of the with body
                for eo in self.block(node.orelse, o.state):
                    if eo.kind == NORMAL:
                        res.append(Outcome(o.kind, eo.state, o.exc, o.node))
                    else:
                        res.append(eo)
            elif o.kind == RAISE and node.handlers:
                pending = True
                for h in node.handlers:
                    c = handler_catches(h, o.exc)
                    if c == 'no':
                        continue
                    hs = d.enter_handler(h, o.state, o.exc)
                    if hs is not None:
                        exc_here = o.exc
                        if c == 'maybe':
                            names = handler_names(h)
                            exc_here = names[0] if len(names) == 1 else ANY
                        hs = self._with_cur_exc(hs, exc_here)
                        for ho in self.block(h.body, hs):
                            if ho.kind == RAISE and ho.exc is None:
                                ho.exc = exc_here
                            res.append(self._clear_cur_exc(ho))
                    if c == 'yes':
                        pending = False
                        break
                if pending:
                    res.append(o)
            else:
                res.append(o)
        if node.finalbody:
            fin = []
            for o in res:
                for fo in self.block(node.finalbody, o.state):
                    if fo.kind == NORMAL:
                        fin.append(Outcome(o.kind, fo.state, o.exc, o.node))
                    else:
                        fin.append(fo)
            res = fin
        return self.dedup(res)

    @staticmethod
    def _with_cur_exc(state, exc):
        if hasattr(state, 'cur_exc'):
            s = state.copy()
            s.cur_exc = exc
            return s
        return state

    @staticmethod
    def _clear_cur_exc(o):
        if hasattr(o.state, 'cur_exc') and o.state.cur_exc is not None:
            s = o.state.copy()
            s.cur_exc = None
            o.state = s
        return o


def calls_in_order(node):
    """Call nodes inside `node` in (approximate) evaluation order: arguments
    before the call itself, left to right; nested lambdas/defs excluded."""
    out = []

    def rec(n):
        if isinstance(n, (ast.Lambda, ast.FunctionDef, ast.AsyncFunctionDef,
                          ast.ClassDef)):
            return
        if isinstance(n, ast.Call):
            rec(n.func)
            for a in n.args:
                rec(a)
            for k in n.keywords:
                rec(k.value)
            out.append(n)
            return
        for c in ast.iter_child_nodes(n):
            rec(c)
    rec(node)
    return out
