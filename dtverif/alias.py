"""May-alias analysis of caller data (C13.R1 / C17.R5): which local names may
refer to an object the caller owns (values from the namespace, the sequence
parameters, results of client methods, and their elements), and which
mutating operations are applied to them."""
import ast

from .core import norm
from .flow import BaseState
from .flow import Domain
from .flow import Interp
from .model import own_nodes

MUTATORS = {'sort', 'reverse', 'append', 'insert', 'pop', 'remove',
            'extend', 'clear', 'update', 'setdefault', 'popitem',
            '__setitem__', '__delitem__'}
CUTTERS = {'list', 'tuple', 'sorted', 'dict', 'set', 'frozenset', 'str',
           'int', 'float', 'len', 'repr', 'bool', 'range', 'type',
           'isinstance', 'hasattr', 'id'}


class AS(BaseState):
    __slots__ = ('al', 'trace', 'cur_exc')

    def __init__(self, al=frozenset()):
        self.al = al
        self.trace = ()
        self.cur_exc = None

    def key(self):
        return self.al

    def copy(self):
        n = AS(self.al)
        n.trace = self.trace
        return n


class AliasDomain(Domain):
    """seeds: set of parameter names that are caller data;
    ns_names: names of the namespace (md[...] and X(md) yield caller data);
    passthrough: callee where-strings that may return their first arg."""

    def __init__(self, model, fi, seeds, ns_names=('md',),
                 passthrough=(), client_results=()):
        self.model = model
        self.fi = fi
        self.seeds = set(seeds)
        self.ns = set(ns_names)
        self.passthrough = set(passthrough)
        self.client_results = set(client_results)
        self.mutations = {}      # id(node) -> (node, receiver text)

    def initial(self):
        return AS(frozenset(self.seeds))

    # does evaluating e yield (an alias of / element of) caller data?
    def tainted(self, e, st):
        if isinstance(e, ast.Name):
            return e.id in st.al
        if isinstance(e, ast.Attribute):
            return norm(e) in st.al
        if isinstance(e, ast.Subscript):
            if isinstance(e.value, ast.Name) and e.value.id in self.ns:
                return True
            if isinstance(e.slice, ast.Slice):
                return False               # a slice copies
            return self.tainted(e.value, st)
        if isinstance(e, ast.Call):
            f = e.func
            if isinstance(f, ast.Name) and f.id in CUTTERS:
                return False
            # X(md): expression evaluated in the namespace
            if any(isinstance(a, ast.Name) and a.id in self.ns
                   for a in e.args) and isinstance(f, ast.Name) and \
                    not self._resolves(e):
                return True
            if isinstance(f, ast.Attribute) and f.attr == 'eval':
                return True
            names = self.model.callee_names(e, self.fi)
            if names & self.passthrough:
                return any(self.tainted(a, st) for a in e.args)
            # calling a value that is caller data (client method)
            if self.tainted(f, st):
                return True
            if isinstance(f, ast.Name) and f.id in self.client_results:
                return True
            return False
        if isinstance(e, ast.IfExp):
            return self.tainted(e.body, st) or self.tainted(e.orelse, st)
        if isinstance(e, ast.BoolOp):
            return any(self.tainted(v, st) for v in e.values)
        return False

    def _resolves(self, call):
        return any(t[0] in ('func', 'class')
                   for t in self.model.resolve_callee(call.func, self.fi))

    def _bind(self, target, is_tainted, st):
        al = set(st.al)
        for n in ast.walk(target):
            if isinstance(n, ast.Name) and isinstance(n.ctx, ast.Store):
                if is_tainted:
                    al.add(n.id)
                else:
                    al.discard(n.id)
        if isinstance(target, ast.Attribute):
            (al.add if is_tainted else al.discard)(norm(target))
        return AS(frozenset(al))

    def _scan_mut(self, node, st):
        for n in ast.walk(node):
            if isinstance(n, ast.Call) and isinstance(n.func, ast.Attribute)\
                    and n.func.attr in MUTATORS and \
                    self.tainted(n.func.value, st):
                self.mutations[id(n)] = (n, norm(n.func.value))
            if isinstance(n, (ast.Lambda, ast.FunctionDef)):
                continue

    def effects(self, stmt, st):
        self._scan_mut(stmt, st)
        if isinstance(stmt, ast.Assign):
            t = self.tainted(stmt.value, st)
            ns = st
            for tg in stmt.targets:
                if isinstance(tg, ast.Subscript):
                    if self.tainted(tg.value, ns):
                        self.mutations[id(stmt)] = (stmt, norm(tg.value))
                    continue
                if isinstance(tg, (ast.Tuple, ast.List)):
                    # k, client = element-of-decorated-list: elements of a
                    # fresh list are what was put in: stay conservative
                    ns = self._bind(tg, t, ns)
                else:
                    ns = self._bind(tg, t, ns)
            ns.trace = st.trace
            return ns
        if isinstance(stmt, ast.AugAssign):
            if isinstance(stmt.target, ast.Subscript) and \
                    self.tainted(stmt.target.value, st):
                self.mutations[id(stmt)] = (stmt, norm(stmt.target.value))
            return st
        if isinstance(stmt, ast.Delete):
            for tg in stmt.targets:
                if isinstance(tg, ast.Subscript) and \
                        self.tainted(tg.value, st):
                    self.mutations[id(stmt)] = (stmt, norm(tg.value))
        return st

    def for_target(self, node, st):
        ns = self._bind(node.target, self.tainted(node.iter, st), st)
        ns.trace = st.trace
        return ns

    def on_return(self, node, st):
        if node.value is not None:
            self._scan_mut(node.value, st)
        return [], st


def returns_alias_of_param(model, fi, param):
    """Does fi return (on some path) an object that may alias `param`?"""
    dom = AliasDomain(model, fi, {param}, ns_names=())
    outs = Interp(dom).run(fi.node, dom.initial())
    for o in outs:
        if o.kind == 'return' and o.node is not None and \
                o.node.value is not None and \
                dom.tainted(o.node.value, o.state):
            return True
    return False


def analyse(model, fi, seeds, **kw):
    dom = AliasDomain(model, fi, seeds, **kw)
    Interp(dom).run(fi.node, dom.initial())
    return dom
