"""Constant folding of module-level byte/str table expressions.

A tiny evaluator for *constant* expressions built from literals, the
module's own constant names and a fixed white-list of pure builtins
(bytes, bytearray, range, chr, ord, len, str/bytes methods join, encode,
decode, translate, maketrans, replace, slices, +, comprehensions over
range).  Nothing of the repository is imported or executed: only these
builtins are applied to literal values.  Used where a property depends on
the *value* of a table (e.g. the two base64 translation tables must undo
each other) and not on how the table is spelled.
"""
import ast


class NotConstant(Exception):
    pass


_FUNCS = {'bytes': bytes, 'bytearray': bytearray, 'range': range,
          'chr': chr, 'ord': ord, 'len': len, 'list': list, 'tuple': tuple,
          'str': str, 'int': int, 'dict': dict, 'zip': zip,
          'reversed': reversed, 'sorted': sorted, 'enumerate': enumerate}
_METHODS = {'join', 'encode', 'decode', 'translate', 'replace', 'lower',
            'upper', 'strip', 'split', 'index', 'find', 'items', 'keys',
            'values', 'get', 'format', 'copy', 'startswith', 'endswith',
            'lstrip', 'rstrip', 'partition', 'rpartition', 'isidentifier',
            'count'}
_STATIC = {('bytes', 'maketrans'): bytes.maketrans,
           ('str', 'maketrans'): str.maketrans,
           ('bytes', 'fromhex'): bytes.fromhex,
           ('dict', 'fromkeys'): dict.fromkeys}
_LIMIT = 100000


def fold(expr, globals_, env=None, _depth=0):
    """Value of a constant expression.  globals_: name -> [value nodes] of
    the module (a name bound once is followed)."""
    env = env or {}
    if _depth > 40:
        raise NotConstant('too deep')

    def ev(e):
        return fold(e, globals_, env, _depth + 1)
    if isinstance(expr, ast.Constant):
        return expr.value
    if isinstance(expr, ast.Name):
        if expr.id in env:
            return env[expr.id]
        vals = globals_.get(expr.id)
        if vals and len(vals) == 1:
            return fold(vals[0], globals_, {}, _depth + 1)
        raise NotConstant(expr.id)
    if isinstance(expr, (ast.Tuple, ast.List, ast.Set)):
        vals = [ev(x) for x in expr.elts]
        return tuple(vals) if isinstance(expr, ast.Tuple) else (
            vals if isinstance(expr, ast.List) else set(vals))
    if isinstance(expr, ast.Dict):
        if any(k is None for k in expr.keys):
            raise NotConstant('dict unpacking')
        return {ev(k): ev(v) for k, v in zip(expr.keys, expr.values)}
    if isinstance(expr, ast.BinOp):
        a, b = ev(expr.left), ev(expr.right)
        ops = {ast.Add: lambda: a + b, ast.Sub: lambda: a - b,
               ast.Mult: lambda: a * b, ast.Mod: lambda: a % b,
               ast.FloorDiv: lambda: a // b, ast.BitOr: lambda: a | b,
               ast.BitAnd: lambda: a & b}
        f = ops.get(type(expr.op))
        if f is None:
            raise NotConstant('operator')
        if isinstance(expr.op, ast.Mult) and (
                (isinstance(a, int) and a > _LIMIT) or
                (isinstance(b, int) and b > _LIMIT)):
            raise NotConstant('too large')
        try:
            return f()
        except Exception as exc:
            raise NotConstant(str(exc))
    if isinstance(expr, ast.UnaryOp) and isinstance(expr.op, ast.USub):
        return -ev(expr.operand)
    if isinstance(expr, ast.UnaryOp) and isinstance(expr.op, ast.Not):
        return not ev(expr.operand)
    if isinstance(expr, ast.BoolOp):
        v = None
        for x in expr.values:
            v = ev(x)
            if isinstance(expr.op, ast.And) and not v:
                return v
            if isinstance(expr.op, ast.Or) and v:
                return v
        return v
    if isinstance(expr, ast.Subscript):
        v = ev(expr.value)
        sl = expr.slice
        try:
            if isinstance(sl, ast.Slice):
                return v[slice(ev(sl.lower) if sl.lower else None,
                               ev(sl.upper) if sl.upper else None,
                               ev(sl.step) if sl.step else None)]
            return v[ev(sl)]
        except NotConstant:
            raise
        except Exception as exc:
            raise NotConstant(str(exc))
    if isinstance(expr, (ast.ListComp, ast.GeneratorExp, ast.SetComp,
                         ast.DictComp)):
        out = []

        def gen(i, env2):
            if i == len(expr.generators):
                if isinstance(expr, ast.DictComp):
                    out.append((fold(expr.key, globals_, env2, _depth + 1),
                                fold(expr.value, globals_, env2,
                                     _depth + 1)))
                else:
                    out.append(fold(expr.elt, globals_, env2, _depth + 1))
                return
            g = expr.generators[i]
            it = fold(g.iter, globals_, env2, _depth + 1)
            n = 0
            for item in it:
                n += 1
                if n > _LIMIT:
                    raise NotConstant('too large')
                e3 = dict(env2)
                if isinstance(g.target, ast.Name):
                    e3[g.target.id] = item
                elif isinstance(g.target, ast.Tuple) and all(
                        isinstance(x, ast.Name) for x in g.target.elts):
                    for x, v in zip(g.target.elts, item):
                        e3[x.id] = v
                else:
                    raise NotConstant('target')
                if all(fold(c, globals_, e3, _depth + 1) for c in g.ifs):
                    gen(i + 1, e3)
        gen(0, dict(env))
        if isinstance(expr, ast.DictComp):
            return dict(out)
        return set(out) if isinstance(expr, ast.SetComp) else out
    if isinstance(expr, ast.Call):
        args = [ev(a) for a in expr.args]
        if expr.keywords:
            raise NotConstant('keywords')
        f = expr.func
        try:
            if isinstance(f, ast.Name) and f.id in _FUNCS and \
                    f.id not in env and f.id not in globals_:
                if f.id == 'range' and args and max(
                        abs(a) for a in args) > _LIMIT:
                    raise NotConstant('too large')
                r = _FUNCS[f.id](*args)
                return list(r) if f.id in ('zip', 'reversed',
                                           'enumerate') else r
            if isinstance(f, ast.Attribute):
                if isinstance(f.value, ast.Name) and \
                        (f.value.id, f.attr) in _STATIC and \
                        f.value.id not in env and \
                        f.value.id not in globals_:
                    return _STATIC[(f.value.id, f.attr)](*args)
                if f.attr in _METHODS:
                    recv = ev(f.value)
                    if isinstance(recv, (str, bytes, bytearray, dict, list,
                                         tuple)):
                        r = getattr(recv, f.attr)(*args)
                        return list(r) if f.attr in (
                            'items', 'keys', 'values') else r
        except NotConstant:
            raise
        except Exception as exc:
            raise NotConstant(str(exc))
        raise NotConstant('call ' + ast.unparse(f))
    if isinstance(expr, ast.Compare) and len(expr.ops) == 1:
        a, b = ev(expr.left), ev(expr.comparators[0])
        ops = {ast.Eq: a == b, ast.NotEq: a != b, ast.Is: a is b,
               ast.IsNot: a is not b}
        if type(expr.ops[0]) in ops:
            return ops[type(expr.ops[0])]
        if isinstance(expr.ops[0], ast.In):
            return a in b
        if isinstance(expr.ops[0], ast.NotIn):
            return a not in b
        try:
            return {ast.Lt: lambda: a < b, ast.LtE: lambda: a <= b,
                    ast.Gt: lambda: a > b, ast.GtE: lambda: a >= b}[
                        type(expr.ops[0])]()
        except Exception as exc:
            raise NotConstant(str(exc))
    if isinstance(expr, ast.IfExp):
        return ev(expr.body) if ev(expr.test) else ev(expr.orelse)
    raise NotConstant(type(expr).__name__)
