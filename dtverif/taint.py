"""E3 -- inter-procedural taint engine (client of the flow interpreter).

Every variable holds ONE abstract atom per state (disjunctive analysis); an
operation with several possible results forks the state.  Atoms:

  'T'            TaintedString object
  ('P', origin)  plain text that may carry raw tainted content; origin names
                 the operation that dropped the mark
  'C'            clean text      ('K', v) known constant (clean)
  ('H', origin)  html-escaped text derived from the tainted value
  'Q'            percent-encoded text derived from the tainted value
  'O'            clean value of any type (not derived from the tainted one)
  ('BM', a, n)   bound method n of a value with atom a
  ('COLL', elems, nonempty, must)   list/tuple/dict-values container;
                 must = element atoms certainly present
  ('FN', where)  a function of the repository
  'NS'           the namespace           'GETATTR'  a getattr-like callable
  'BLK'/'EXPR'   scenario atoms of render_blocks_ (a compiled 'v' block and
                 its name-or-expression operand)
"""
import ast

from .core import AnalysisError
from .core import norm
from .flow import ANY
from .flow import NORMAL
from .flow import RAISE
from .flow import RETURN
from .flow import BaseState
from .flow import Domain
from .flow import Interp
from .flow import Outcome
from .model import ancestors
from .taintlib import TaintedModel
from .taintlib import str_method_class
from .taintlib import str_method_zero_arg

T, C, Q, O, NS, BLK, EXPR, GETATTR = \
    'T', 'C', 'Q', 'O', 'NS', 'BLK', 'EXPR', 'GETATTR'


def P(origin):
    return ('P', origin)


def H(origin):
    return ('H', origin)


def K(v):
    return ('K', v)


def kind(a):
    return a[0] if isinstance(a, tuple) else a


def is_text(a):
    k = kind(a)
    return k in ('P', 'C', 'H', 'Q') or (k == 'K' and
                                         isinstance(a[1], (str, bytes)))


def coll(elems, nonempty=False, must=None):
    """must: atoms certainly present among the elements (a uniform
    non-empty container certainly holds its one element atom)."""
    elems = frozenset(elems)
    if must is None:
        must = elems if (nonempty and len(elems) == 1) else ()
    return ('COLL', elems, bool(nonempty), frozenset(must) & elems)


def must_of(a):
    return a[3] if kind(a) == 'COLL' and len(a) > 3 else frozenset()


def worst(atoms, default=C):
    """Combine text-ish atoms of a concatenation / formatting."""
    atoms = list(atoms)
    for a in atoms:
        if a == T:
            return T
    ps = sorted(a for a in atoms if kind(a) == 'P')
    if ps:
        return ps[0]
    hs = sorted(a for a in atoms if kind(a) == 'H')
    if hs:
        return hs[0]
    if Q in atoms:
        return Q
    return default


class TS(BaseState):
    __slots__ = ('env', 'ne', 'ret', 'trace', 'cur_exc')

    def __init__(self, env=None):
        self.env = dict(env or {})
        self.ne = {}
        self.ret = None
        self.trace = ()
        self.cur_exc = None

    def key(self):
        return (tuple(sorted(self.env.items(), key=repr)),
                tuple(sorted((k, tuple(sorted(v, key=repr)))
                             for k, v in self.ne.items())),
                self.ret, self.cur_exc)

    def copy(self):
        n = TS(self.env)
        n.ne = dict(self.ne)
        n.ret = self.ret
        n.trace = self.trace
        n.cur_exc = self.cur_exc
        return n

    def set(self, name, atom):
        n = self.copy()
        n.env[name] = atom
        n.ne.pop(name, None)
        return n


class Engine:
    """Holds summaries, events and library models for one Model."""

    def __init__(self, model):
        self.model = model
        self.tm = TaintedModel()
        self.summaries = {}
        self.in_progress = set()
        self.events = []          # dicts: kind, where, construct, ...
        self.tables = {}
        self.stats = {'summaries': 0, 'states': 0}
        self.nl_effects = {}      # summary key -> {((name, atom), ...)}

    def event(self, **kw):
        if kw not in self.events:
            self.events.append(kw)

    # ----------------------------------------------------------- tables
    def function_table(self, m, name):
        """Ordered list of FuncInfo for a module-level tuple/list/dict of
        function names (e.g. DT_Var.modifiers, special_formats)."""
        key = (m.short, name)
        if key in self.tables:
            return self.tables[key]
        vals = m.globals.get(name)
        if not vals:
            raise AnalysisError(f'table {m.short}.{name} not found')
        from . import tables
        out = None
        ents = tables.func_entries(self.model, m, name)
        if ents and all(r and r[0] == 'func' for _, _, r in ents):
            out = [(k if k is not None else r[1].name, r[1])
                   for k, _, r in ents]
        if out is None:
            raise AnalysisError(
                f'table {m.short}.{name}: entries do not resolve to '
                'functions')
        self.tables[key] = out
        return out

    # -------------------------------------------------------- summaries
    def summary(self, fi, args, kwargs=None):
        """Set of return atoms of calling fi with positional arg atoms."""
        kwargs = kwargs or {}
        key = (fi.where, tuple(args), tuple(sorted(kwargs.items(),
                                                   key=repr)))
        if key in self.summaries:
            return self.summaries[key]
        if key in self.in_progress:
            return frozenset()
        self.in_progress.add(key)
        try:
            env = self.bind_params(fi, args, kwargs)
            dom = TaintDomain(self, fi)
            outs = TaintInterp(dom).run(fi.node, TS(env))
            rets = set()
            # a closure that rebinds variables of its enclosing function
            # (nonlocal x): the values x can have when the call returns
            nl = sorted({n for x in ast.walk(fi.node)
                         if isinstance(x, ast.Nonlocal) for n in x.names})
            effects = set()
            for o in outs:
                if o.kind == RETURN:
                    rets.add(o.state.ret if o.state.ret is not None
                             else K(None))
                elif o.kind == NORMAL:
                    rets.add(K(None))
                if nl and o.kind in (RETURN, NORMAL):
                    effects.add(tuple((n, o.state.env[n]) for n in nl
                                      if n in o.state.env))
            res = frozenset(rets)
            if nl:
                self.nl_effects[key] = effects
        finally:
            self.in_progress.discard(key)
        self.summaries[key] = res
        self.stats['summaries'] += 1
        return res

    def bind_params(self, fi, args, kwargs):
        a = fi.node.args
        params = a.posonlyargs + a.args
        env = {}
        off = 0
        if fi.cls is not None and params and params[0].arg == 'self':
            env['self'] = O
            off = 1
        names = [p.arg for p in params[off:]]
        for i, n in enumerate(names):
            if i < len(args):
                env[n] = args[i]
            elif n in kwargs:
                env[n] = kwargs[n]
            else:
                d = self.model.param_default(fi, n)
                env[n] = self.default_atom(d)
        for p, d in zip(a.kwonlyargs, a.kw_defaults):
            env[p.arg] = kwargs.get(p.arg, self.default_atom(d))
        if a.vararg:
            extra = args[len(names):]
            env[a.vararg.arg] = coll(extra, bool(extra))
        if a.kwarg:
            extra = [v for k, v in kwargs.items() if k not in names]
            env[a.kwarg.arg] = coll(extra, bool(extra))
        return env

    @staticmethod
    def default_atom(d):
        if d is None:
            return O
        if isinstance(d, ast.Constant):
            return K(d.value)
        return O


def _in_try(node):
    c = getattr(node, '_dt_in_try', None)
    if c is None:
        c = False
        prev = node
        for a in ancestors(node):
            if isinstance(a, ast.Try) and prev in a.body:
                c = True
                break
            if isinstance(a, (ast.FunctionDef, ast.AsyncFunctionDef)):
                break
            prev = a
        node._dt_in_try = c
    return c


class TaintDomain(Domain):
    def __init__(self, engine, fi, sources=None, sink_append=None):
        self.e = engine
        self.model = engine.model
        self.fi = fi
        self.tm = engine.tm
        # entry-specific hooks
        self.sink_append = sink_append      # name of the output list param
        self.sinks = []                     # (node, atom, state)
        self._nl_pending = []               # effects of closures called

    # --------------------------------------------------------- plumbing
    def origin(self, node):
        return f'{self.fi.where}|{norm(node)}'

    def raises(self, node, st):
        if _in_try(node) or isinstance(node, ast.expr) and any(
                _in_try(a) for a in [node]):
            return [ANY]
        return []

    def simple(self, stmt, st):
        outs = []
        if _in_try(stmt):
            outs.append(Outcome(RAISE, st, ANY, stmt))
        for ns in self.exec_simple(stmt, st):
            outs.append(Outcome(NORMAL, ns))
        return outs

    def on_return(self, node, st):
        raise NotImplementedError   # handled in TaintInterp.stmt

    # ------------------------------------------------------ statements
    def exec_simple(self, stmt, st):
        if isinstance(stmt, (ast.FunctionDef, ast.AsyncFunctionDef)):
            f = getattr(stmt, '_dt_func', None)
            return [st.set(stmt.name, ('FN', f.where))] if f is not None \
                else [st]
        self._nl_pending = []
        res = self.exec_simple_(stmt, st)
        # closures called by the statement may have rebound variables of
        # this function (nonlocal): continue once per possible outcome
        for eff in self._nl_pending:
            nxt = {}
            for s in res:
                for alt in eff:
                    s2 = s
                    for name, atom in alt:
                        s2 = s2.set(name, atom)
                    nxt.setdefault(s2.key(), s2)
            res = list(nxt.values())
        self._nl_pending = []
        return res

    def effects(self, stmt, st):
        r = self.exec_simple(stmt, st)
        return r[0] if r else st

    def exec_simple_(self, stmt, st):
        if isinstance(stmt, ast.Assign):
            res = []
            for a in self.ev(stmt.value, st):
                s = st
                for t in stmt.targets:
                    s = self.assign(t, a, s, stmt)
                res.append(s)
            return res
        if isinstance(stmt, ast.AnnAssign) and stmt.value is not None:
            return [self.assign(stmt.target, a, st, stmt)
                    for a in self.ev(stmt.value, st)]
        if isinstance(stmt, ast.AugAssign):
            fake = ast.BinOp(left=_load(stmt.target), op=stmt.op,
                             right=stmt.value)
            ast.copy_location(fake, stmt)
            fake._dt_origin_node = stmt
            return [self.assign(stmt.target, a, st, stmt)
                    for a in self.ev(fake, st)]
        if isinstance(stmt, ast.Expr):
            v = stmt.value
            # container.append(x) / sink
            if isinstance(v, ast.Call) and \
                    isinstance(v.func, ast.Attribute) and \
                    v.func.attr in ('append', 'extend', 'insert') and \
                    isinstance(v.func.value, ast.Name) and v.args:
                name = v.func.value.id
                res = []
                for a in self.ev(v.args[-1], st):
                    if name == self.sink_append:
                        self.sinks.append((stmt, a, st))
                        res.append(st)
                        continue
                    cur = st.env.get(name)
                    if kind(cur) == 'COLL':
                        res.append(st.set(name, coll(cur[1] | {a}, True)))
                    else:
                        res.append(st)
                return res
            return [st for _ in self.ev(v, st)][:1] if self.ev(v, st) \
                else []
        if isinstance(stmt, (ast.Import, ast.ImportFrom)):
            s = st
            for al in stmt.names:
                s = s.set(al.asname or al.name.split('.')[0], O)
            return [s]
        if isinstance(stmt, ast.Delete):
            return [st]
        if isinstance(stmt, ast.Assert):
            return [st]
        return [st]

    def assign(self, t, atom, st, stmt):
        if isinstance(t, ast.Name):
            return st.set(t.id, atom)
        if isinstance(t, (ast.Tuple, ast.List)):
            s = st
            for e in t.elts:
                if kind(atom) == 'COLL':
                    # single-atom env: pick the worst element
                    el = sorted(atom[1], key=_badness)[-1] if atom[1] else O
                else:
                    el = O if not is_text(atom) and atom != T else atom
                s = self.assign(e, el, s, stmt)
            return s
        if isinstance(t, ast.Subscript) and isinstance(t.value, ast.Name):
            cur = st.env.get(t.value.id)
            if kind(cur) == 'COLL':
                return st.set(t.value.id, coll(cur[1] | {atom}, True))
            return st
        return st

    # ------------------------------------------------------- branching
    def branch(self, test, st):
        res = []
        for b, s in self._branch(test, st):
            res.append((b, s))
        return res

    def _branch(self, test, st):
        e = test
        # isinstance(x, cls)
        if isinstance(e, ast.Call) and isinstance(e.func, ast.Name) and \
                e.func.id == 'isinstance' and len(e.args) == 2:
            out = []
            for a in self.ev(e.args[0], st):
                for b in self.isinstance_(a, e.args[1]):
                    s = st
                    if isinstance(e.args[0], ast.Name):
                        if b and a == O and self._names(e.args[1]) <= {
                                'str', 'bytes'}:
                            s = st.set(e.args[0].id, C)
                        else:
                            s = st.set(e.args[0].id, a)
                    out.append((b, s))
            return out
        if isinstance(e, ast.Compare) and len(e.ops) == 1:
            op = e.ops[0]
            l, r = e.left, e.comparators[0]
            # '<' in x
            if isinstance(op, (ast.In, ast.NotIn)) and \
                    isinstance(l, ast.Constant) and l.value == '<' and \
                    isinstance(r, ast.Name):
                a = st.env.get(r.id, O)
                pos = isinstance(op, ast.In)
                if kind(a) == 'P':
                    return [(pos, st), (not pos, st.set(r.id, C))]
                if kind(a) == 'K' and isinstance(a[1], str):
                    return [(('<' in a[1]) == pos, st)]
                return [(True, st), (False, st)]
            if isinstance(op, (ast.Is, ast.IsNot, ast.Eq, ast.NotEq)):
                la = self.ev(l, st)
                ra = self.ev(r, st)
                if not la or not ra:
                    return []
                if len(la) == 1 and len(ra) == 1:
                    a, b = next(iter(la)), next(iter(ra))
                    pos = isinstance(op, (ast.Is, ast.Eq))
                    if kind(a) == 'K' and kind(b) == 'K':
                        return [((a[1] == b[1]) == pos, st)]
                    # x is None on a value that is certainly not None
                    if kind(b) == 'K' and b[1] is None and \
                            isinstance(op, (ast.Is, ast.IsNot)):
                        if a == T or kind(a) in ('P', 'H', 'BM', 'COLL',
                                                 'FN') or a in (C, Q, NS):
                            return [(not pos, st)]
                    # name == 'const' with exclusion tracking
                    if isinstance(l, ast.Name) and kind(b) == 'K' and \
                            isinstance(op, (ast.Eq, ast.NotEq)):
                        if b[1] in st.ne.get(l.id, ()):
                            return [(not pos, st)]
                        if a == T or kind(a) in ('P', 'H'):
                            # tainted text never equals an author constant
                            # for the purposes of the scenario: keep both
                            return [(True, st), (False, st)]
                        t = st.set(l.id, b)
                        f = st.copy()
                        f.ne[l.id] = frozenset(st.ne.get(l.id, ())) | {b[1]}
                        return [(pos, t), (not pos, f)]
                return [(True, st), (False, st)]
            if not self.ev(l, st) or not self.ev(r, st):
                return []
            return [(True, st), (False, st)]
        if isinstance(e, ast.Compare):
            for x in [e.left] + e.comparators:
                if not self.ev(x, st):
                    return []
            return [(True, st), (False, st)]
        if isinstance(e, ast.Name):
            a = st.env.get(e.id)
            if a is not None and kind(a) == 'K':
                return [(bool(a[1]), st)]
            if a is not None and (kind(a) == 'BM' or kind(a) == 'FN'):
                return [(True, st)]
            if a is not None and kind(a) == 'COLL' and a[2]:
                return [(True, st)]
            return [(True, st), (False, st)]
        vals = self.ev(e, st)
        if not vals:
            return []
        if all(kind(a) == 'K' for a in vals):
            bs = {bool(a[1]) for a in vals}
            return [(b, st) for b in bs]
        return [(True, st), (False, st)]

    @staticmethod
    def _names(cls_expr):
        if isinstance(cls_expr, ast.Tuple):
            out = set()
            for x in cls_expr.elts:
                out |= TaintDomain._names(x)
            return out
        if isinstance(cls_expr, ast.Name):
            return {cls_expr.id}
        if isinstance(cls_expr, ast.Attribute):
            return {cls_expr.attr}
        return {'?'}

    def isinstance_(self, a, cls_expr):
        names = self._names(cls_expr)
        k = kind(a)
        res = set()
        for n in names:
            if n == 'TaintedString':
                res.add(a == T)
            elif n in ('str', 'bytes'):
                if k in ('P', 'C', 'H', 'Q'):
                    # text of unknown flavour: str certainly in practice;
                    # bytes possibly
                    res.add(True)
                    if n == 'bytes':
                        res.add(False)
                elif k == 'K':
                    res.add(isinstance(a[1], str if n == 'str' else bytes))
                elif a == O or a == EXPR:
                    res |= {True, False}
                else:
                    res.add(False)
            elif n == 'tuple':
                if a == BLK:
                    res.add(True)
                elif k == 'COLL' or a == O:
                    res |= {True, False}
                elif k == 'K':
                    res.add(isinstance(a[1], tuple))
                else:
                    res.add(False)
            elif n in ('BaseException', 'Exception'):
                res |= {True, False} if a == O else {False}
            elif n in ('int', 'float'):
                if a == O:
                    res |= {True, False}
                elif k == 'K':
                    res.add(isinstance(a[1], (int, float)))
                else:
                    res.add(False)
            else:
                res |= {True, False} if a in (O, NS) else {False}
        if True in res and len(names) > 1:
            # a tuple of classes: true if any matches
            out = {True}
            if all((False in self.isinstance_(a, ast.Name(id=n)))
                   for n in names):
                out.add(False)
            return out
        return res

    def for_target(self, node, st):
        return st      # handled in TaintInterp.loop

    def enter_handler(self, h, st, exc):
        if h.name:
            return st.set(h.name, O)
        return st

    # ----------------------------------------------------- expressions
    def ev(self, e, st):
        """-> frozenset of atoms (empty: evaluation certainly raises)."""
        m = getattr(self, 'ev_' + type(e).__name__, None)
        if m is None:
            return frozenset([O])
        r = m(e, st)
        return r if isinstance(r, frozenset) else frozenset(r)

    def ev_Constant(self, e, st):
        try:
            hash(e.value)
            return {K(e.value)}
        except TypeError:
            return {O}

    def ev_JoinedStr(self, e, st):
        parts = []
        for v in e.values:
            if isinstance(v, ast.FormattedValue):
                vs = self.ev(v.value, st)
                if not vs:
                    return frozenset()
                for a in vs:
                    parts.append(self.to_str(a, e))
        return {worst(parts)}

    def ev_Name(self, e, st):
        if e.id in st.env:
            return {st.env[e.id]}
        # closure / global / builtin
        r = self.model.resolve_global(self.fi.module, e.id)
        if r:
            if r[0] == 'func':
                return {('FN', r[1].where)}
            if r[0] == 'value':
                ok, v = self.model.fold(e, None, self.fi.module)
                if ok:
                    try:
                        hash(v)
                        return {K(v)}
                    except TypeError:
                        pass
                return {('GLOBAL', r[2].short, e.id)}
            if r[0] == 'ext' and r[1] == 'builtins.getattr':
                return {GETATTR}
            return {('EXT', r[1])} if r[0] == 'ext' else {O}
        if e.id == 'getattr':
            return {GETATTR}
        if e.id in ('None', 'True', 'False'):
            return {K({'None': None, 'True': True, 'False': False}[e.id])}
        return {('EXT', 'builtins.' + e.id)}

    def ev_Tuple(self, e, st):
        elems = set()
        for x in e.elts:
            v = self.ev(x, st)
            if not v:
                return frozenset()
            elems |= v
        if elems and all(kind(a) == 'K' for a in elems) and \
                len(e.elts) <= 6:
            ok, v = self.model.fold(e, None, self.fi.module)
            if ok:
                try:
                    hash(v)
                    return {K(v)}
                except TypeError:
                    pass
        return {coll(elems, bool(e.elts))}

    ev_List = ev_Tuple
    ev_Set = ev_Tuple

    def ev_Dict(self, e, st):
        elems = set()
        for x in e.values:
            v = self.ev(x, st)
            if not v:
                return frozenset()
            elems |= v
        return {coll(elems, bool(e.values))}

    def ev_ListComp(self, e, st):
        return self._comp(e, [e.elt], st)

    ev_GeneratorExp = ev_SetComp = ev_ListComp

    def ev_DictComp(self, e, st):
        return self._comp(e, [e.value], st)

    @staticmethod
    def _iter_elems(it):
        """(element atoms, certainly non-empty) of iterating atom `it`."""
        k = kind(it)
        if k == 'COLL':
            return (set(it[1]) or {O}), bool(it[2])
        if it == T:
            return {T, C}, False
        if k == 'K':
            return {C if isinstance(it[1], (str, bytes)) else O}, False
        if is_text(it):
            return {it}, False
        return {O}, False

    def _comp(self, e, elts, st):
        """A comprehension: bind the targets to every element atom of the
        iterated values and evaluate the element expression(s); the result
        is a container of the element atoms."""
        states = [st]
        nonempty = True
        must = set()
        if len(e.generators) == 1 and not e.generators[0].ifs:
            g0 = e.generators[0]
            its = self.ev(g0.iter, st)
            if len(its) == 1:
                for m in must_of(next(iter(its))):
                    vs = set()
                    for el in elts:
                        vs |= self.ev(el, self.assign(g0.target, m, st, e))
                    if len(vs) == 1:
                        must |= vs
        for g in e.generators:
            nxt = {}
            for s in states:
                for it in self.ev(g.iter, s):
                    elems, ne = self._iter_elems(it)
                    nonempty = nonempty and ne
                    for el in sorted(elems, key=repr):
                        cands = [self.assign(g.target, el, s, e)]
                        for cond in g.ifs:
                            nonempty = False
                            c2 = []
                            for x in cands:
                                for b, sb in Interp(self).branch(cond, x):
                                    if b:
                                        c2.append(sb)
                            cands = c2
                        for x in cands:
                            nxt.setdefault(x.key(), x)
            states = list(nxt.values())[:64]
        out = set()
        for s in states:
            for el in elts:
                out |= self.ev(el, s)
        return {coll(out or {O}, nonempty and bool(out),
                     (must & out) if must else None)}

    def ev_Lambda(self, e, st):
        return {O}

    def ev_IfExp(self, e, st):
        out = set()
        for b, s in Interp(self).branch(e.test, st):
            out |= self.ev(e.body if b else e.orelse, s)
        return out

    def ev_UnaryOp(self, e, st):
        v = self.ev(e.operand, st)
        if not v:
            return frozenset()
        if isinstance(e.op, ast.Not):
            if all(kind(a) == 'K' for a in v):
                return {K(not a[1]) for a in v}
            return {O}
        if isinstance(e.op, ast.USub) and all(
                kind(a) == 'K' and isinstance(a[1], (int, float))
                for a in v):
            return {K(-a[1]) for a in v}
        return {O}

    def ev_BoolOp(self, e, st):
        # the value of `a and b` / `a or b` is one of the operands; an
        # operand whose truth value is known (a constant) either ends the
        # evaluation or is passed over
        is_and = isinstance(e.op, ast.And)
        out = set()
        live = True
        for i, x in enumerate(e.values):
            if not live:
                break
            v = self.ev(x, st)
            if not v and i == 0:
                return frozenset()
            last = i == len(e.values) - 1
            live = False
            for a in v:
                t = bool(a[1]) if kind(a) == 'K' else None
                if last:
                    out.add(a)
                elif t is None:
                    out.add(a)
                    live = True
                elif t == is_and:
                    live = True           # passed over
                else:
                    out.add(a)            # short-circuit: this is the value
        return out or {O}

    def ev_Compare(self, e, st):
        for x in [e.left] + e.comparators:
            if not self.ev(x, st):
                return frozenset()
        res = set()
        for b, _ in self._branch(e, st) if len(e.ops) == 1 else [
                (True, st), (False, st)]:
            res.add(K(b))
        return res or {O}

    def ev_Attribute(self, e, st):
        base = self.ev(e.value, st)
        out = set()
        for a in base:
            out |= self.attr(a, e.attr, e, st)
        return out

    def attr(self, a, name, node, st):
        k = kind(a)
        if a == T:
            mc = self.tm.method_class(name)
            if mc is None:
                return set()           # AttributeError
            return {('BM', T, name)}
        if is_text(a):
            if str_method_class(name) is None and name not in ('decode',):
                return set()
            return {('BM', a, name)}
        if k == 'COLL':
            return {('BM', a, name)}
        if k == 'FN':
            if name == '__name__':
                return {K(a[1].split(':')[-1].split('.')[-1])}
            return {O}
        if a == O and isinstance(node.value, ast.Name) and \
                node.value.id == 'self':
            return {self.self_attr(name, node, st)}
        if k == 'GLOBAL' or k == 'EXT':
            return {('EXT', (a[-1] if k == 'EXT' else a[2]) + '.' + name)}
        if a == NS:
            if name in ('guarded_getattr',):
                return {GETATTR, K(None)}
            return {('BM', NS, name)}
        return {O}

    def self_attr(self, name, node, st):
        if name in ('fmt', '__name__', 'encoding'):
            return C
        if name == 'args':
            return 'ARGS'
        if self.fi.cls is not None and self.self_table(name,
                                                       probe=True):
            return ('SELFTBL', name)
        return O

    def self_table(self, name, probe=False):
        """Function table behind `self.<name>`: the module-level table that
        the constructor filters to build the attribute."""
        cache = self.e.tables
        key = ('self', self.fi.cls.module.short, self.fi.cls.name, name)
        if key not in cache:
            found = None
            for c in self.model.mro(self.fi.cls):
                for mfi in c.methods.values():
                    for n in ast.walk(mfi.node):
                        if isinstance(n, ast.Assign) and any(
                                isinstance(t, ast.Attribute) and
                                t.attr == name and
                                isinstance(t.value, ast.Name) and
                                t.value.id == 'self' for t in n.targets):
                            for x in ast.walk(n.value):
                                if isinstance(x, ast.Name) and \
                                        x.id in c.module.globals:
                                    try:
                                        found = self.e.function_table(
                                            c.module, x.id)
                                    except AnalysisError:
                                        pass
            cache[key] = found
        if cache[key] is None and not probe:
            raise AnalysisError(f'no function table behind self.{name}')
        return cache[key]

    def ev_Subscript(self, e, st):
        base = self.ev(e.value, st)
        idx = e.slice
        out = set()
        if not isinstance(idx, ast.Slice):
            if not self.ev(idx, st):
                return frozenset()
        for a in base:
            k = kind(a)
            if a == T:
                out |= {T, C}
            elif k == 'K':
                ok, v = self.model.fold(e, None, self.fi.module)
                iv = None
                if not isinstance(idx, ast.Slice):
                    ia = self.ev(idx, st)
                    if len(ia) == 1 and kind(next(iter(ia))) == 'K':
                        iv = next(iter(ia))[1]
                try:
                    if iv is not None:
                        out.add(K(a[1][iv]))
                    elif isinstance(idx, ast.Slice) and \
                            isinstance(a[1], (str, bytes)):
                        out.add(C)
                    else:
                        out.add(O if not isinstance(a[1], str) else C)
                except Exception:
                    pass
            elif is_text(a):
                out.add(a)
            elif k == 'COLL':
                if isinstance(idx, ast.Slice):
                    out.add(a)
                else:
                    out |= set(a[1]) or {O}
            elif a == NS:
                out.add(T)                    # md[name]: the tainted value
            elif a == BLK:
                out |= self.blk_item(e, st)
            elif k == 'GLOBAL':
                out.add(('TBLITEM', a[1], a[2], self._const_of(idx, st)))
            elif a == 'ARGS':
                out.add(C)
            else:
                out.add(O)
        return out

    def _const_of(self, idx, st):
        if isinstance(idx, ast.Slice):
            return None
        ia = self.ev(idx, st)
        if len(ia) == 1 and kind(next(iter(ia))) == 'K':
            return next(iter(ia))[1]
        if isinstance(idx, ast.Name):
            return ('VAR', idx.id)
        return None

    def blk_item(self, e, st):
        i = self._const_of(e.slice, st)
        if i == 0:
            return {K('v')}
        if i == 1:
            return {EXPR}
        return {O}

    def ev_BinOp(self, e, st):
        ls = self.ev(e.left, st)
        rs = self.ev(e.right, st)
        out = set()
        onode = getattr(e, '_dt_origin_node', e)
        for a in ls:
            for b in rs:
                out |= self.binop(e.op, a, b, e, onode)
        return out

    def binop(self, op, a, b, e, onode):
        if isinstance(op, ast.Mod):
            if a == T:
                return {T}
            if is_text(a):
                items = list(b[1]) if kind(b) == 'COLL' else [b]
                fmt = a[1] if kind(a) == 'K' else None
                bad = [x for x in items if x == T or kind(x) == 'P']
                if bad:
                    if fmt is not None and _numeric_only(fmt):
                        return {C}
                    return {P(self.origin(onode)) if T in items
                            else worst(bad)}
                return {worst([a] + items)}
            return {O}
        if isinstance(op, ast.Add):
            if kind(a) == 'K' and kind(b) == 'K':
                try:
                    return {K(a[1] + b[1])}
                except Exception:
                    return {O}
            if a == T or b == T:
                return {T}
            if is_text(a) or is_text(b):
                return {worst([a, b])}
            if kind(a) == 'COLL' and kind(b) == 'COLL':
                return {coll(a[1] | b[1], a[2] or b[2],
                             must_of(a) | must_of(b))}
            return {O}
        if isinstance(op, ast.Mult):
            if a == T or b == T:
                return {T}
            for x in (a, b):
                if is_text(x):
                    return {x if kind(x) != 'K' else C}
            return {O}
        return {O}

    # ------------------------------------------------------------ calls
    def to_str(self, a, node):
        """atom of str(a)"""
        k = kind(a)
        if a == T:
            return P(self.origin(node))
        if k in ('P', 'H') or a in (C, Q):
            return a
        if k == 'K':
            return a if isinstance(a[1], str) else C
        if k == 'COLL':
            # list.__str__ uses repr() of the elements; TaintedString's
            # repr is quoted, a plain str's repr is not
            ps = sorted(x for x in a[1] if kind(x) == 'P')
            return ps[0] if ps else C
        return C

    def ev_Call(self, e, st):
        f = e.func
        # evaluate arguments (any certainly-raising argument kills the call)
        argsets = []
        for a in e.args:
            if isinstance(a, ast.Starred):
                v = self.ev(a.value, st)
                v = {x for c in v for x in (c[1] if kind(c) == 'COLL'
                                            else [c])} or {O}
            else:
                v = self.ev(a, st)
            if not v:
                return frozenset()
            argsets.append(sorted(v, key=repr))
        kwsets = {}
        for kw in e.keywords:
            v = self.ev(kw.value, st)
            if not v:
                return frozenset()
            if kw.arg is None:
                v = {x for c in v for x in (c[1] if kind(c) == 'COLL'
                                            else [c])} or {O}
                kwsets['**'] = sorted(v, key=repr)
            else:
                kwsets[kw.arg] = sorted(v, key=repr)
        out = set()
        for args in _product(argsets):
            out |= self.call1(e, f, list(args), kwsets, st)
        return out

    def call1(self, e, f, args, kwsets, st):
        # method call x.m(...)
        if isinstance(f, ast.Attribute):
            recv = self.ev(f.value, st)
            out = set()
            handled = True
            for r in recv:
                res = self.method(r, f.attr, args, e, st, f)
                if res is None:
                    handled = False
                    break
                out |= res
            if handled:
                return out
        fvals = self.ev(f, st)
        out = set()
        allargs = list(args)
        for vals in kwsets.values():
            allargs += [v for v in vals]
        for fv in fvals:
            out |= self.call_value(fv, args, kwsets, e, st,
                                   allargs=allargs)
        return out

    def method(self, r, name, args, e, st, f):
        """Result atoms of r.name(*args); None = not a value method (fall
        back to evaluating the callee expression)."""
        k = kind(r)
        a0 = args[0] if args else None
        if r == T:
            mc = self.tm.method_class(name)
            if mc is None:
                return set()
            return self.t_method_result(mc, e)
        if is_text(r):
            if name == 'join':
                items = list(a0[1]) if kind(a0) == 'COLL' else [a0 or C]
                if T in items:
                    # str.join of TaintedString objects raises TypeError
                    items = [x for x in items if x != T]
                    if not items:
                        return set()
                return {worst([r] + items)}
            if name == 'format' or name == 'format_map':
                items = []
                for x in args:
                    items += list(x[1]) if kind(x) == 'COLL' else [x]
                items = [self.to_str(x, e) if x == T else x for x in items]
                return {worst([r] + [x for x in items if is_text(x)
                                     or kind(x) == 'P'])}
            if name == 'replace' and len(args) >= 2:
                rep = args[1]
                base = r if kind(r) != 'K' else C
                if rep == T:
                    return set()
                return {worst([base, rep]) if (is_text(rep) and
                                               kind(rep) != 'K') else base}
            if name == 'decode' or name == 'encode':
                return {r if kind(r) != 'K' else C}
            sc = str_method_class(name)
            if sc is None:
                return set()
            if sc == 'nontext':
                return {O}
            if sc == 'container':
                return {coll({r if kind(r) != 'K' else C}, True)}
            return {r if kind(r) != 'K' else C}
        if k == 'COLL':
            if name in ('items', 'values', 'keys', 'copy'):
                return {r}
            if name in ('get', 'pop'):
                return set(r[1]) | ({K(None)} if name == 'get' else set()) \
                    or {O}
            if name == '__contains__':
                return {O}
            if name in ('__str__', '__repr__'):
                return {self.to_str(r, e)}
            return {O}
        if r == NS:
            if name == 'getitem':
                return {T}
            return {O}
        if k == 'BM':
            return None
        if r == O:
            # self.expr.eval(md) / val.eval(md): evaluation in the namespace
            if any(x == NS for x in args):
                return {T}
            return None
        if r == 'ARGS':
            if name == 'get':
                return {C, K(None)}
            return {O}
        return None

    def t_method_result(self, mc, e):
        if mc == 'T':
            return {T}
        if mc == 'TC':
            return {T, C}
        if mc == 'COLL':
            return {coll({T, C}, True)}
        if mc == 'COLLP':
            return {coll({P(self.origin(e) +
                           ' [elements of a list/tuple result]')}, True)}
        if mc == 'H':
            return {H(self.origin(e))}
        if mc == 'P':
            return {P(self.origin(e))}
        if mc == 'RAISE':
            return set()
        return {O}

    def call_value(self, fv, args, kwsets, e, st, allargs=None):
        k = kind(fv)
        allargs = allargs if allargs is not None else args
        a0 = args[0] if args else None
        if k == 'BM' and fv[2] == '*':
            return self.any_method(fv[1], args, e, st)
        if k == 'BM':
            res = self.method(fv[1], fv[2], args, e, st, e.func if
                              isinstance(e.func, ast.Attribute) else
                              ast.Attribute(value=ast.Name(id='_'),
                                            attr=fv[2]))
            return res if res is not None else {O}
        if k == 'FN':
            return self.call_repo(fv[1], args, kwsets, e, st)
        if fv == GETATTR:
            return self.getattr_(args, e, st)
        if k == 'TBLITEM':
            return self.call_table(fv, args, kwsets, e, st)
        if k == 'EXT':
            return self.call_ext(fv[1], args, kwsets, e, st)
        if fv == EXPR:
            return {T} if NS in args else {O}
        if fv == O or k == 'GLOBAL':
            if NS in args and not any(x == T or kind(x) in ('P', 'H')
                                      for x in args):
                # a compiled expression evaluated in the namespace
                return {T} if getattr(self, 'opaque_ns_call_is_source',
                                      False) else {O}
            return self.unknown_call(allargs, e)
        if k == 'K' and fv[1] is None:
            return set()
        return self.unknown_call(allargs, e)

    def any_method(self, recv, args, e, st):
        """Call of an attribute whose name is chosen by the template author
        (method formats): union over every attribute name."""
        out = set()
        leaking = []
        fake = ast.Attribute(value=ast.Name(id='_'), attr='*')
        if recv == T:
            names = self.tm.all_attr_names()
        else:
            names = sorted(dir(str))
        for n in names:
            if recv == T and n not in self.tm.methods and \
                    not str_method_zero_arg(n) and not args:
                continue
            res = self.method(recv, n, args, e, st, fake)
            if not res:
                continue
            for a in res:
                if kind(a) == 'P':
                    leaking.append((a[1], n))
                elif kind(a) == 'COLL':
                    for x in a[1]:
                        if kind(x) == 'P':
                            leaking.append((x[1], n))
            out |= res
        for org in sorted({o for o, _ in leaking}):
            self.e.event(kind='methods', origin=org,
                         names=sorted({n for o, n in leaking if o == org}))
        return out

    def unknown_call(self, args, e):
        flat = []
        for x in args:
            flat += list(x[1]) if kind(x) == 'COLL' else [x]
        bad = [x for x in flat if x == T or kind(x) == 'P']
        if bad:
            ps = sorted(x for x in bad if kind(x) == 'P')
            return {ps[0] if ps else P(self.origin(e)), O}
        return {O}

    def getattr_(self, args, e, st):
        if len(args) < 2:
            return {O}
        obj, name = args[0], args[1]
        dflt = args[2] if len(args) > 2 else None
        out = set()
        if obj == T:
            if kind(name) == 'K':
                mc = self.tm.method_class(name[1])
                if mc is None:
                    return {dflt} if dflt is not None else set()
                return {('BM', T, name[1])}
            return {('BM', T, '*')}
        if obj == NS:
            if kind(name) == 'K' and name[1] == 'guarded_getattr':
                return {GETATTR, K(None)}
            return {O} | ({dflt} if dflt is not None else set())
        if is_text(obj) or kind(obj) == 'COLL':
            if kind(name) == 'K':
                if kind(obj) != 'COLL' and \
                        str_method_class(name[1]) is None:
                    return {dflt} if dflt is not None else set()
                return {('BM', obj, name[1])}
            return {('BM', obj, '*')}
        out.add(O)
        if dflt is not None:
            out.add(dflt)
        return out

    def call_table(self, fv, args, kwsets, e, st):
        _, mshort, tname, key = fv
        m = self.model.module(mshort)
        table = self.e.function_table(m, tname)
        out = set()
        excluded = set()
        if isinstance(key, tuple) and key and key[0] == 'VAR':
            excluded = set(st.ne.get(key[1], ()))
            cur = st.env.get(key[1])
            key = cur[1] if cur is not None and kind(cur) == 'K' else None
        for kname, fi in table:
            if key is not None and kname != key:
                continue
            if kname in excluded:
                continue
            self.cur_table_entry = kname
            out |= self.call_repo(fi.where, args, kwsets, e, st,
                                  via=f'{tname}[{kname!r}]')
        return out

    def call_repo(self, where, args, kwsets, e, st, via=None):
        mshort, qual = where.split(':')
        fi = self.model.func(mshort, qual)
        kwargs = {}
        for kname, vals in kwsets.items():
            if kname != '**':
                kwargs[kname] = vals[0]
        for a in args[:1]:
            if kind(a) == 'H' and self.is_escaper(fi):
                self.e.event(kind='double', where=self.fi.where,
                             construct=norm(getattr(
                                 e, '_dt_stmt', e)),
                             second=fi.where + (f' via {via}' if via
                                                else ''),
                             first=a[1])
        res = self.e.summary(fi, args, kwargs)
        key = (fi.where, tuple(args), tuple(sorted(kwargs.items(),
                                                   key=repr)))
        eff = self.e.nl_effects.get(key)
        if eff:
            self._nl_pending.append(eff)
        return set(res)

    def is_escaper(self, fi):
        """Does fi (transitively, shallow) return html.escape(...)?"""
        c = getattr(fi, '_dt_escaper', None)
        if c is None:
            c = False
            for n in ast.walk(fi.node):
                if isinstance(n, ast.Return) and \
                        isinstance(n.value, ast.Call):
                    names = self.model.callee_names(n.value, fi)
                    if 'html.escape' in names:
                        c = True
            fi._dt_escaper = c
        return c

    def call_ext(self, name, args, kwsets, e, st):
        a0 = args[0] if args else None
        base = name.split('.')[-1]
        if name in ('builtins.str', 'builtins.repr', 'builtins.format'):
            if a0 is None:
                return {K('')}
            if name == 'builtins.repr' and a0 == T:
                return {H(self.origin(e))}
            return {self.to_str(a0, e)}
        if name.endswith('tainted.TaintedString'):
            return {T}
        if name == 'html.escape':
            if kind(a0) == 'H':
                self.e.event(kind='double', where=self.fi.where,
                             construct=norm(e), second=self.fi.where,
                             first=a0[1])
            if a0 == T:
                return set()       # escape() needs str: AttributeError?
            q = args[1] if len(args) > 1 else None
            if 'quote' in kwsets:
                q = kwsets['quote'][0]
            if q is not None and kind(q) == 'K' and not q[1]:
                self.e.event(kind='weak-escape', where=self.fi.where,
                             construct=norm(e))
            if kind(a0) == 'P' or kind(a0) == 'H':
                return {H(self.origin(e))}
            return {C if a0 != Q else Q}
        if name in ('urllib.parse.quote', 'urllib.parse.quote_plus'):
            if a0 == T:
                return set()
            if kind(a0) in ('P', 'H') or a0 == Q:
                return {Q}
            return {C}
        if name in ('urllib.parse.unquote', 'urllib.parse.unquote_plus'):
            if a0 == T:
                return set()
            if kind(a0) == 'P':
                return {a0}
            if kind(a0) == 'H' or a0 == Q:
                return {P(f'{self.fi.where}|{name}(<escaped or '
                          'percent-encoded tainted text>)')}
            return {C}
        if name == 'builtins.isinstance' and len(args) == 2 and \
                len(e.args) == 2:
            return {K(b) for b in self.isinstance_(a0, e.args[1])}
        if name in ('builtins.any', 'builtins.all') and a0 is not None \
                and kind(a0) == 'COLL':
            els = set(a0[1])
            ms = must_of(a0)
            if name.endswith('any') and any(
                    kind(x) == 'K' and x[1] for x in ms):
                return {K(True)}
            if name.endswith('all') and any(
                    kind(x) == 'K' and not x[1] for x in ms):
                return {K(False)}
            if els and all(kind(x) == 'K' for x in els):
                bs = {bool(x[1]) for x in els}
                if len(bs) == 1:
                    b = next(iter(bs))
                    if (name.endswith('any') and not b) or \
                            (name.endswith('all') and b) or a0[2]:
                        return {K(b)}
            return {K(True), K(False)}
        if name in ('builtins.isinstance', 'builtins.hasattr',
                    'builtins.len', 'builtins.int', 'builtins.float',
                    'builtins.type', 'builtins.callable', 'builtins.bool',
                    'builtins.range', 'builtins.id', 'builtins.ord',
                    'builtins.abs', 'math.sqrt'):
            return {O}
        if name == 'builtins.getattr':
            return self.getattr_(args, e, st)
        if name == 'builtins.enumerate' and a0 is not None and \
                kind(a0) == 'COLL':
            # pairs (index, element): the loop target takes the element
            # atoms (the index gets them too, harmlessly)
            return {a0}
        if name in ('builtins.list', 'builtins.tuple', 'builtins.sorted',
                    'builtins.reversed', 'builtins.dict'):
            if a0 is None:
                return {coll(set())}
            if kind(a0) == 'COLL':
                return {a0}
            if a0 == T:
                return {coll({T, C}, True)}
            if is_text(a0):
                return {coll({a0}, True)}
            return {coll({O})}
        if base == 'aq_base':
            return {a0 if a0 is not None else O}
        if name == 'builtins.print':
            return {K(None)}
        return self.unknown_call(args, e)


def _badness(a):
    order = {'O': 0, 'K': 0, 'C': 1, 'Q': 2, 'H': 3, 'COLL': 4, 'P': 6,
             'T': 5}
    return order.get(kind(a), 0)


def _numeric_only(fmt):
    import re
    specs = re.findall(r'%(?:\([^)]*\))?[-+ #0-9.*]*([a-zA-Z%])', fmt)
    return bool(specs) and all(c in 'dieEfFgGxXou%c' for c in specs)


def _product(lists):
    if not lists:
        yield ()
        return
    total = 1
    for x in lists:
        total *= len(x)
    if total > 64:
        # too many combinations: vary one argument at a time around the
        # worst choice of the others
        worst_choice = [sorted(x, key=_badness)[-1] for x in lists]
        seen = set()
        for i, x in enumerate(lists):
            for a in x:
                c = tuple(worst_choice[:i] + [a] + worst_choice[i + 1:])
                if c not in seen:
                    seen.add(c)
                    yield c
        return
    import itertools
    yield from itertools.product(*lists)


def _load(t):
    import copy
    n = copy.deepcopy(t)
    for x in ast.walk(n):
        if hasattr(x, 'ctx'):
            x.ctx = ast.Load()
    return n


class TaintInterp(Interp):
    """Adds: return-value recording, table loops, container loops, and
    dead-variable pruning between the top-level statements of a function
    (keeps the disjunctive state set small)."""

    def __init__(self, domain, max_states=400000):
        super().__init__(domain, max_states)

    def run(self, fn_node, state):
        body = fn_node.body
        live_after = []
        acc = set()
        for s in reversed(body):
            for n in ast.walk(s):
                if isinstance(n, ast.Name):
                    acc.add(n.id)
            live_after.append(set(acc))
        live_after.reverse()
        cur = [state]
        outs = []
        for i, s in enumerate(body):
            live = live_after[i]
            nxt = {}
            pruned = {}
            for c in cur:
                if any(k not in live for k in c.env):
                    c2 = c.copy()
                    c2.env = {k: v for k, v in c.env.items() if k in live}
                    c2.ne = {k: v for k, v in c.ne.items() if k in live}
                    c = c2
                pruned.setdefault(c.key(), c)
            for c in pruned.values():
                for o in self.stmt(s, c):
                    if o.kind == NORMAL:
                        nxt.setdefault(o.state.key(), o.state)
                    else:
                        outs.append(o)
            cur = list(nxt.values())
            if not cur:
                break
        outs += [Outcome(NORMAL, c) for c in cur]
        if self.overflow:
            raise AnalysisError(
                f'taint engine: state budget exceeded in {self.d.fi.where}')
        return self.dedup(outs)

    def stmt(self, node, state):
        d = self.d
        if isinstance(node, ast.Return):
            st = state.at(node)
            outs = []
            if _in_try(node):
                outs.append(Outcome(RAISE, st, ANY, node))
            vals = d.ev(node.value, st) if node.value is not None \
                else {K(None)}
            for a in vals:
                s = st.copy()
                s.ret = a
                outs.append(Outcome(RETURN, s, None, node))
            return outs
        if isinstance(node, ast.Raise):
            return [Outcome(RAISE, state.at(node), d.on_raise(node, state),
                            node)]
        # mark statement on contained calls (for event reporting)
        for c in ast.walk(node) if isinstance(node, (
                ast.Assign, ast.Expr, ast.AugAssign)) else ():
            if isinstance(c, ast.Call):
                c._dt_stmt = node
        d.e.stats['states'] += 1
        return super().stmt(node, state)

    def loop(self, node, st):
        d = self.d
        if isinstance(node, ast.For):
            its = d.ev(node.iter, st)
            outs = []
            for it in its:
                outs += self.for_over(node, st, it)
            return self.dedup(outs)
        return super().loop(node, st)

    def for_over(self, node, st, it):
        d = self.d
        k = kind(it)
        if k == 'SELFTBL':
            return self.table_loop(node, st, d.self_table(it[1]))
        if k == 'K' and isinstance(it[1], tuple):
            elems = [K(x) for x in it[1]]
            return self.elem_loop(node, st, elems, must=bool(elems),
                                  ordered=True)
        if k == 'COLL':
            return self.elem_loop(node, st, sorted(it[1], key=repr) or [O],
                                  must=it[2])
        if it == T:
            return self.elem_loop(node, st, [T, C], must=False)
        if is_text(it):
            return self.elem_loop(node, st, [it], must=False)
        # range(len(X)) over a non-empty container executes at least once
        must = False
        if isinstance(node.iter, ast.Call) and \
                isinstance(node.iter.func, ast.Name) and \
                node.iter.func.id == 'range' and node.iter.args and \
                isinstance(node.iter.args[-1], ast.Call) and \
                isinstance(node.iter.args[-1].func, ast.Name) and \
                node.iter.args[-1].func.id == 'len':
            inner = node.iter.args[-1].args[0]
            iv = d.ev(inner, st)
            must = bool(iv) and all(kind(x) == 'COLL' and x[2] for x in iv)
        return self.elem_loop(node, st, [O], must=must)

    def bind_target(self, target, atom, st):
        return self.d.assign(target, atom, st, None)

    def elem_loop(self, node, st, elems, must=False, ordered=False):
        """Fixpoint over loop-head states; each iteration binds the target
        to one of the element atoms."""
        head = {}
        work = []
        exits = []

        def add(s):
            if s.key() not in head:
                head[s.key()] = s
                work.append(s)
        first = True
        add(st)
        entry_key = st.key()
        while work:
            s = work.pop()
            is_entry = s.key() == entry_key and first
            first = False
            if not (must and is_entry):
                exits += self.block(node.orelse, s)
            for el in elems:
                sb = self.bind_target(node.target, el, s)
                for o in self.block(node.body, sb):
                    if o.kind in (NORMAL, 'continue'):
                        add(o.state)
                    elif o.kind == 'break':
                        exits.append(Outcome(NORMAL, o.state))
                    else:
                        exits.append(o)
        return exits

    def table_loop(self, node, st, table):
        """`for f in <filtered table>`: every subset, in table order."""
        d = self.d
        states = {st.key(): st}
        exits = []
        for name, fi in table:
            nxt = dict(states)        # entry skipped
            for s in states.values():
                sb = self.bind_target(node.target, ('FN', fi.where), s)
                for o in self.block(node.body, sb):
                    if o.kind in (NORMAL, 'continue'):
                        nxt.setdefault(o.state.key(), o.state)
                    elif o.kind == 'break':
                        exits.append(Outcome(NORMAL, o.state))
                    else:
                        exits.append(o)
            states = nxt
        for s in states.values():
            exits += self.block(node.orelse, s)
        return exits
