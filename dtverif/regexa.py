"""E4 -- regex automata: patterns are parsed with the interpreter's own
re._parser, translated to an epsilon-NFA over an alphabet partitioned by the
character-class boundaries of the pattern(s).

* eda(pattern): exponential degree of ambiguity -- the criterion for
  catastrophic backtracking.  Edges of the analysed graph are (simple
  epsilon-route + one symbol), so two different epsilon routes between the
  same states stay two edges.  EDA iff the self-product has a strongly
  connected component that contains a diagonal state and an edge built from
  two *different* edges.
* included(p, q): L(p) subset of L(q) by subset construction.
"""
import re
import re._constants as C
import re._parser as P
import sys

from .core import AnalysisError

MAXCP = sys.maxunicode


class Unsupported(AnalysisError):
    pass


# ------------------------------------------------------------ char sets
def _norm(iv):
    iv = sorted(iv)
    out = []
    for a, b in iv:
        if out and a <= out[-1][1] + 1:
            out[-1] = (out[-1][0], max(out[-1][1], b))
        else:
            out.append((a, b))
    return tuple(out)


def _neg(iv):
    out = []
    cur = 0
    for a, b in _norm(iv):
        if a > cur:
            out.append((cur, a - 1))
        cur = b + 1
    if cur <= MAXCP:
        out.append((cur, MAXCP))
    return tuple(out)


_CAT_CACHE = {}


def _category(cat, ascii_only=False):
    if (cat, ascii_only) in _CAT_CACHE:
        return _CAT_CACHE[(cat, ascii_only)]
    name = str(cat)
    neg = 'NOT' in name
    if 'DIGIT' in name:
        pred = str.isdigit
    elif 'SPACE' in name:
        pred = str.isspace
    elif 'WORD' in name:
        def pred(c):
            return c.isalnum() or c == '_'
    elif 'LINEBREAK' in name:
        def pred(c):
            return c == '\n'
    else:
        raise Unsupported(f'regex category {name}')
    iv = []
    start = None
    for i in range(MAXCP + 1):
        ok = pred(chr(i)) and (i < 128 or not ascii_only)
        if ok and start is None:
            start = i
        elif not ok and start is not None:
            iv.append((start, i - 1))
            start = None
    if start is not None:
        iv.append((start, MAXCP))
    iv = _norm(iv)
    if neg:
        iv = _neg(iv)
    _CAT_CACHE[(cat, ascii_only)] = iv
    return iv


def _case(iv, ignorecase):
    if not ignorecase:
        return _norm(iv)
    out = list(iv)
    for a, b in iv:
        if b - a > 2000:
            continue
        for cp in range(a, b + 1):
            ch = chr(cp)
            for v in (ch.lower(), ch.upper(), ch.swapcase()):
                if len(v) == 1:
                    out.append((ord(v), ord(v)))
    return _norm(out)


def _set_of(op, av, flags):
    ic = bool(flags & re.IGNORECASE)
    if op is C.LITERAL:
        return _case([(av, av)], ic)
    if op is C.NOT_LITERAL:
        return _neg(_case([(av, av)], ic))
    if op is C.ANY:
        if flags & re.DOTALL:
            return ((0, MAXCP),)
        return _neg([(10, 10)])
    if op is C.IN:
        iv = []
        negate = False
        for o, a in av:
            if o is C.NEGATE:
                negate = True
            elif o is C.LITERAL:
                iv.append((a, a))
            elif o is C.RANGE:
                iv.append((a[0], a[1]))
            elif o is C.CATEGORY:
                iv += list(_category(a, bool(flags & re.ASCII)))
            else:
                raise Unsupported(f'regex set item {o}')
        iv = _case(iv, ic)
        return _neg(iv) if negate else iv
    raise Unsupported(f'regex op {op}')


# ---------------------------------------------------------------- NFA
class NFA:
    def __init__(self):
        self.eps = []      # state -> list of states (ordered)
        self.sym = []      # state -> list of (charset, target)
        self.start = self.new()
        self.accept = None
        self.nullable_star = False

    def new(self):
        self.eps.append([])
        self.sym.append([])
        return len(self.eps) - 1


def build(pattern, flags=0):
    if isinstance(pattern, bytes):
        pattern = pattern.decode('latin-1')
    try:
        tree = P.parse(pattern, flags)
    except re.error as e:
        raise AnalysisError(f'regex does not parse: {pattern!r}: {e}')
    flags = tree.state.flags | flags
    n = NFA()

    def seq(items, s):
        for op, av in items:
            s = one(op, av, s)
        return s

    def one(op, av, s):
        if op in (C.LITERAL, C.NOT_LITERAL, C.ANY, C.IN):
            t = n.new()
            n.sym[s].append((_set_of(op, av, flags), t))
            return t
        if op is C.SUBPATTERN:
            return seq(av[3], s)
        if op is C.BRANCH:
            t = n.new()
            for alt in av[1]:
                a = n.new()
                n.eps[s].append(a)
                e = seq(alt, a)
                n.eps[e].append(t)
            return t
        if op in (C.MAX_REPEAT, C.MIN_REPEAT, getattr(C, 'POSSESSIVE_REPEAT',
                                                      None)):
            lo, hi, sub = av
            if lo > 8 or (hi is not C.MAXREPEAT and hi > 8):
                raise Unsupported('large counted repeat')
            for _ in range(lo):
                s = seq(sub, s)
            if hi is C.MAXREPEAT and _nullable(sub):
                n.nullable_star = True
            if hi is C.MAXREPEAT:
                # loop: s -> body -> back to s ; s -> exit
                entry = n.new()
                n.eps[s].append(entry)
                b = n.new()
                n.eps[entry].append(b)
                e = seq(sub, b)
                n.eps[e].append(entry)
                t = n.new()
                n.eps[entry].append(t)
                return t
            t = n.new()
            cur = s
            for _ in range(hi - lo):
                n.eps[cur].append(t)
                b = n.new()
                n.eps[cur].append(b)
                cur = seq(sub, b)
            n.eps[cur].append(t)
            return t
        if op is C.AT:
            return s            # anchors: epsilon (over-approximation)
        if op is C.ATOMIC_GROUP if hasattr(C, 'ATOMIC_GROUP') else False:
            return seq(av, s)
        raise Unsupported(f'regex op {op}')

    n.accept = seq(tree, n.start)
    return n


def _nullable(items):
    for op, av in items:
        if op in (C.LITERAL, C.NOT_LITERAL, C.ANY, C.IN):
            return False
        if op is C.SUBPATTERN:
            if not _nullable(av[3]):
                return False
        elif op is C.BRANCH:
            if not any(_nullable(alt) for alt in av[1]):
                return False
        elif op in (C.MAX_REPEAT, C.MIN_REPEAT):
            if av[0] > 0 and not _nullable(av[2]):
                return False
        elif op is C.AT:
            continue
        else:
            return False
    return True


def _atoms(*nfas):
    """Partition of the alphabet induced by all sets of the automata."""
    cuts = {0, MAXCP + 1}
    for n in nfas:
        for lst in n.sym:
            for cs, _ in lst:
                for a, b in cs:
                    cuts.add(a)
                    cuts.add(b + 1)
    cuts = sorted(cuts)
    return [(cuts[i], cuts[i + 1] - 1) for i in range(len(cuts) - 1)]


def _atomset(cs, atoms):
    out = set()
    j = 0
    for i, (a, b) in enumerate(atoms):
        while j < len(cs) and cs[j][1] < a:
            j += 1
        if j < len(cs) and cs[j][0] <= a and b <= cs[j][1]:
            out.add(i)
    return frozenset(out)


# ----------------------------------------------------------------- EDA
def _routes(n):
    """state -> list of (route, charset_atoms, target): route = tuple of
    states of a simple epsilon path from the state to the symbol edge."""
    atoms = _atoms(n)
    out = []
    for q in range(len(n.eps)):
        edges = []
        stack = [(q, (q,))]
        while stack:
            s, path = stack.pop()
            for k, (cs, t) in enumerate(n.sym[s]):
                edges.append((path + (('sym', k),),
                              _atomset(cs, atoms), t))
            for t in n.eps[s]:
                if t not in path:
                    stack.append((t, path + (t,)))
        out.append(edges)
    return out


def eda(pattern, flags=0):
    """-> None if the pattern has no exponential ambiguity, else a dict
    describing a witness (pumpable state)."""
    n = build(pattern, flags)
    if n.nullable_star:
        return {'state': -1, 'scc_size': 0, 'nfa_states': len(n.eps),
                'product_states': 0,
                'reason': 'unbounded repeat of a sub-pattern that can match '
                          'the empty string'}
    routes = _routes(n)
    # useful 'core' states: starts of routes reachable from start
    # product graph over pairs (p, p')
    reach = set()
    stack = [n.start]
    while stack:
        s = stack.pop()
        if s in reach:
            continue
        reach.add(s)
        for _, _, t in routes[s]:
            stack.append(t)
    nodes = {}
    edges = {}       # node -> list of (node2, split)
    work = [(q, q) for q in sorted(reach)]
    seen = set(work)
    while work:
        p = work.pop()
        a, b = p
        lst = []
        for i, (r1, cs1, t1) in enumerate(routes[a]):
            for j, (r2, cs2, t2) in enumerate(routes[b]):
                if not (cs1 & cs2):
                    continue
                split = (a != b) or (r1 != r2)
                tgt = (t1, t2)
                lst.append((tgt, split))
                if tgt not in seen:
                    seen.add(tgt)
                    work.append(tgt)
        edges[p] = lst
    # Tarjan SCC (iterative)
    index = {}
    low = {}
    onstack = set()
    st = []
    comp = {}
    counter = [0]
    ncomp = [0]
    for root in list(edges):
        if root in index:
            continue
        callstack = [(root, 0)]
        index[root] = low[root] = counter[0]
        counter[0] += 1
        st.append(root)
        onstack.add(root)
        while callstack:
            v, i = callstack.pop()
            succ = edges.get(v, [])
            if i < len(succ):
                callstack.append((v, i + 1))
                w = succ[i][0]
                if w not in index:
                    index[w] = low[w] = counter[0]
                    counter[0] += 1
                    st.append(w)
                    onstack.add(w)
                    callstack.append((w, 0))
                elif w in onstack:
                    low[v] = min(low[v], index[w])
            else:
                if callstack:
                    u = callstack[-1][0]
                    low[u] = min(low[u], low[v])
                if low[v] == index[v]:
                    while True:
                        w = st.pop()
                        onstack.discard(w)
                        comp[w] = ncomp[0]
                        if w == v:
                            break
                    ncomp[0] += 1
    # SCCs with a diagonal node, a cycle, and a split edge or an
    # off-diagonal node
    by = {}
    for v, c in comp.items():
        by.setdefault(c, []).append(v)
    for c, vs in by.items():
        diag = [v for v in vs if v[0] == v[1]]
        if not diag:
            continue
        internal = [(v, w, sp) for v in vs for (w, sp) in edges.get(v, [])
                    if comp.get(w) == c]
        if not internal:
            continue
        if any(sp for _, _, sp in internal) or any(v[0] != v[1]
                                                   for v in vs):
            return {'state': diag[0][0], 'scc_size': len(vs),
                    'nfa_states': len(n.eps),
                    'product_states': len(edges)}
    return None


def nfa_size(pattern, flags=0):
    n = build(pattern, flags)
    return len(n.eps)


# ----------------------------------------------------------- inclusion
def _closure(n, states):
    out = set(states)
    stack = list(states)
    while stack:
        s = stack.pop()
        for t in n.eps[s]:
            if t not in out:
                out.add(t)
                stack.append(t)
    return frozenset(out)


def included(p, q, pflags=0, qflags=0):
    """Is L(p) a subset of L(q) (both as full-match languages)?
    -> (True, None) or (False, witness string)."""
    a = build(p, pflags)
    b = build(q, qflags)
    atoms = _atoms(a, b)
    asym = [[(_atomset(cs, atoms), t) for cs, t in lst] for lst in a.sym]
    bsym = [[(_atomset(cs, atoms), t) for cs, t in lst] for lst in b.sym]
    start = (_closure(a, [a.start]), _closure(b, [b.start]))
    seen = {start: ''}
    work = [start]
    while work:
        pa, pb = cur = work.pop()
        w = seen[cur]
        if a.accept in pa and b.accept not in pb:
            return False, w
        for i, (lo, hi) in enumerate(atoms):
            na = set()
            for s in pa:
                for cs, t in asym[s]:
                    if i in cs:
                        na.add(t)
            if not na:
                continue
            nb = set()
            for s in pb:
                for cs, t in bsym[s]:
                    if i in cs:
                        nb.add(t)
            nxt = (_closure(a, na), _closure(b, nb))
            if nxt not in seen:
                seen[nxt] = w + chr(lo)
                work.append(nxt)
    return True, None
