from DocumentTemplate import HTML
class N:
    def __init__(s, id, kids=()): s.id=id; s.kids=list(kids)
    def tpId(s): return s.id
    def tpURL(s): return s.id
    def tpValues(s): return s.kids       # hands out its own list
class Resp:
    def setCookie(self,*a,**k): pass
root=N('r',[N('c'),N('a'),N('b')])
before=[k.id for k in root.kids]
HTML('<dtml-tree expr="root" sort=id><dtml-var id></dtml-tree>')(root=root, URL='http://x/y', RESPONSE=Resp(), expand_all=1)
after=[k.id for k in root.kids]
print(before, '->', after)
import sys; sys.exit(0 if before==after else 1)
