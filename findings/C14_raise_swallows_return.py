from DocumentTemplate import HTML
t = HTML('<dtml-raise ValueError><dtml-return x></dtml-raise>after')
try:
    print('result:', repr(t(x=42)))
except Exception as e:
    print('raised', type(e).__name__, e)
