"""C11 (found by C11.R5, the zone analysis of DT_InSV.opt): an explicit
end= beyond the length of the sequence is not clamped.

opt(1, 100, 0, 0, range(5)) returns (1, 100, 100) and rendering
<dtml-in seq start=1 end=100> over five elements raises IndexError instead
of showing elements 1..5.  Run: PYTHONPATH=/repo/src python this_file
exit 0 = behaves as the property says, exit 1 = defect present."""
import sys

from DocumentTemplate import HTML
from DocumentTemplate.DT_InSV import opt

bad = []
seq = list(range(1, 6))
for args in ((1, 100, 0, 0), (2, 9, 0, 0), (1, 6, 3, 0), (9, 12, 0, 0),
             (3, 5, 0, 0), (1, 5, 0, 2)):
    s, e, z = opt(*args, seq)
    if not (1 <= s <= e <= len(seq)):
        bad.append(f'opt{args} -> {(s, e, z)}')
t = HTML('<dtml-in seq start=1 end=100><dtml-var sequence-item>,</dtml-in>')
try:
    out = t(seq=seq)
    if out != '1,2,3,4,5,':
        bad.append(f'rendered {out!r}')
except Exception as exc:      # IndexError on the unrepaired tree
    bad.append(f'render raised {type(exc).__name__}: {exc}')
if bad:
    print('FAIL', *bad, sep='\n  ')
    sys.exit(1)
print('PASS')
