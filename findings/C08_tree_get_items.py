from DocumentTemplate import HTML
from DocumentTemplate._DocumentTemplate import TemplateDict
class Node:
    def __init__(self, id, kids=()): self.id=id; self.kids=list(kids)
    def tpId(self): return self.id
    def tpURL(self): return self.id
class Bad(Node):
    n=0
    @property
    def kidz(self):
        Bad.n+=1
        if Bad.n==1: raise ValueError('boom')
        return []
root = Node('r', [Bad('a'), Node('b', [Node('c')])])
for n in (root, root.kids[1], root.kids[1].kids[0]): n.kidz = n.kids
t = HTML('<dtml-tree expr="root" branches_expr="kidz"><dtml-var id></dtml-tree>|<dtml-var "_.len(_)">')
class Resp:
    def setCookie(self,*a,**k): pass
import DocumentTemplate._DocumentTemplate as D
seen=[]
orig=D.TemplateDict._pop
md = {'root': root, 'expand_all': 1, 'URL': 'http://x/y', 'RESPONSE': Resp()}
t2 = HTML('<dtml-var "_.len(_)">:<dtml-tree expr="root" branches_expr="kidz"><dtml-var id></dtml-tree>:<dtml-var "_.len(_)">')
out = t2(None, md)
print(out.split(':')[0], out.split(':')[-1])
