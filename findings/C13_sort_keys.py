import datetime, decimal
from DocumentTemplate import HTML
class O:
    def __init__(self, **kw): self.__dict__.update(kw)
objs=[O(n='c', d=datetime.date(2020,3,1), dec=decimal.Decimal(3), l=[3]),
      O(n='a', d=datetime.date(2020,1,1), dec=decimal.Decimal(1), l=[1]),
      O(n='b', d=datetime.date(2020,2,1), dec=decimal.Decimal(2), l=[2])]
def r(src):
    try: return HTML(src)(objs=objs)
    except Exception as e: return 'EXC %s: %s' % (type(e).__name__, e)
print('sort=d      ', r('<dtml-in objs sort=d><dtml-var n></dtml-in>'), '(expected abc)')
print('sort=dec    ', r('<dtml-in objs sort=dec><dtml-var n></dtml-in>'), '(expected abc)')
print('sort=l,n    ', r('<dtml-in objs sort="l,n"><dtml-var n></dtml-in>'), '(expected abc)')
print('sort=d,n    ', r('<dtml-in objs sort="d,n"><dtml-var n></dtml-in>'), '(expected abc)')
objs2=[O(n='x', f=lambda: 2), O(n='y', f=lambda: [][1]), O(n='z', f=lambda: 1)]
def r2(src):
    try: return HTML(src)(objs=objs2)
    except Exception as e: return 'EXC %s: %s' % (type(e).__name__, e)
print('sort=f      ', r2('<dtml-in objs sort=f><dtml-var n></dtml-in>'), '(failing callable first: yzx)')
print('sort=f,n    ', r2('<dtml-in objs sort="f,n"><dtml-var n></dtml-in>'), '(expected yzx)')
