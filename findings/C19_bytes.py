from DocumentTemplate import HTML
def r(src, **kw):
    try: return repr(HTML(src)(**kw))
    except Exception as e: return 'EXC %s: %s' % (type(e).__name__, e)
b = 'é'.encode('utf-8')
print(1, r('<dtml-try><dtml-var x><dtml-except>E<dtml-else>!</dtml-try>', x=b), "(expected 'é!')")
print(2, r('<dtml-try><dtml-var x><dtml-finally>!</dtml-try>', x=b), "(expected 'é!')")
print(3, r('<dtml-var x html_quote size=99>', x=b), "(expected 'é')  [known finding: Var has no encoding]")
class N:
    def __init__(s, id, kids=()): s.id=id; s.kids=list(kids); s.title=b
    def tpId(s): return s.id
    def tpURL(s): return s.id
    def tpValues(s): return s.kids
class Resp:
    def setCookie(self,*a,**k): pass
root=N('r',[N('a'),N('b')])
print(4, r('<dtml-tree expr="root"><dtml-var title> x</dtml-tree>', root=root, URL='http://x/y', RESPONSE=Resp(), expand_all=1).count('Ã'), '(expected 0 mis-decoded)')
root2=N('r',[N('a')])
print(5, r('<dtml-tree expr="root"><dtml-var title></dtml-tree>', root=root2, URL='http://x/y', RESPONSE=Resp())[:40], "(single bytes piece in a row: expected text, not TypeError)")
