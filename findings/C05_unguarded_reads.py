"""A guard that refuses the attribute 'secret' (and items that are Secret
objects): none of the outputs below may contain TOPSECRET."""
from DocumentTemplate import HTML
from zExceptions import Unauthorized
class Obj:
    def __init__(self, name, secret): self.name=name; self.secret=secret
    def tpId(self): return self.name
class G(HTML):
    def guarded_getattr(self, ob, name, default=None):
        if name == 'secret': raise Unauthorized(name)
        return getattr(ob, name)
    def guarded_getitem(self, ob, index):
        return ob[index]
objs=[Obj('b','TOPSECRET2'), Obj('a','TOPSECRET1')]
def r(src, **kw):
    try: return G(src)(objs=objs, **kw)
    except Exception as e: return 'EXC %s' % type(e).__name__
print(1, r('<dtml-in objs><dtml-var secret missing=refused></dtml-in>'))   # guarded: refused
print(2, r('<dtml-in objs><dtml-var sequence-var-secret> </dtml-in>'))
print(3, r('<dtml-in objs><dtml-if first-secret>F</dtml-if></dtml-in>'))
print(4, r('<dtml-in objs><dtml-var max-secret></dtml-in>'))
print(5, r('<dtml-in objs sort=secret><dtml-var name> </dtml-in>'), '(order reveals secret)')
print(6, r('<dtml-in objs sort="secret,name"><dtml-var name> </dtml-in>'))
