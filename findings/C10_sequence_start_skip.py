"""skip_unauthorized + a refused first element: sequence-start."""
from DocumentTemplate import HTML
from zExceptions import Unauthorized
class G(HTML):
    def guarded_getattr(self, ob, name, default=None): return getattr(ob, name)
    def guarded_getitem(self, ob, index):
        if ob[index] == 'secret': raise Unauthorized(index)
        return ob[index]
seq=['secret','a','b','c']
src='<dtml-in seq skip_unauthorized><dtml-if sequence-start>[</dtml-if><dtml-var sequence-item></dtml-in>'
print('unbatched:', G(src)(seq=seq), "(expected '[abc')")
print('batched  :', G(src.replace('skip_unauthorized','skip_unauthorized size=10'))(seq=seq), "(expected '[abc')")
