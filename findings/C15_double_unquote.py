from DocumentTemplate import HTML
print(repr(HTML('<dtml-var x url_unquote>')(x='%2541')), "(expected '%41')")
print(repr(HTML('<dtml-var x url_unquote_plus>')(x='%252B')), "(expected '%2B')")
