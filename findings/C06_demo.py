import time, sys
from DocumentTemplate import HTML, String
from DocumentTemplate.DT_Util import ParseError
def t(label, f):
    t0=time.time()
    try: r = f(); r = 'ok'
    except ParseError as e: r = 'ParseError: ' + str(e)[-45:].replace('\n',' ')
    except Exception as e: r = 'OTHER %s: %s' % (type(e).__name__, str(e)[:60])
    print(label, '->', r, '(%.2fs)' % (time.time()-t0))
t('1 EPFS exponential', lambda: String('%(x ' + 'a'*24).cook())
t('2 trailing &dtml', lambda: HTML('abc&dtml').cook())
t('3 let syntax error', lambda: HTML('<dtml-let x="1+">a</dtml-let>').cook())
t('4 block error line', lambda: HTML('<dtml-in x orphan=1>\n\n\n</dtml-in>').cook())
t('5 1200 attributes', lambda: HTML('<dtml-var x ' + 'lower '*1200 + '>').cook())
t('6 600 nested if', lambda: HTML('<dtml-if x>'*600 + '</dtml-if>'*600).cook())
