"""Two threads render one shared template whose dtml-in uses sort_expr with
per-thread values.  The evaluated key is stored on the shared tag object
(self.sort) and read back later: with an unlucky switch one thread sorts by
the other's key.  The window is forced deterministically here by making the
sequence lookup of thread A wait until thread B has stored its key."""
import threading
from DocumentTemplate import HTML
class O:
    def __init__(s, a, b): s.a=a; s.b=b
objs=[O(1,3), O(2,2), O(3,1)]
t = HTML('<dtml-in objs sort_expr="key"><dtml-var a></dtml-in>')
t.cook()
gate_a = threading.Event(); gate_b = threading.Event()
import DocumentTemplate.DT_In as D
orig = D.InClass.sort_sequence
def slow(self, sequence, md, *a, **k):
    if threading.current_thread().name == 'A':
        gate_a.set(); gate_b.wait(2)
    return orig(self, sequence, md, *a, **k)
D.InClass.sort_sequence = slow
res={}
def run(name, key):
    if name == 'B': gate_a.wait(2)
    res[name] = t(objs=objs, key=key)
    if name == 'B': gate_b.set()
ta=threading.Thread(target=run, args=('A','a'), name='A'); tb=threading.Thread(target=run, args=('B','b'), name='B')
ta.start(); tb.start(); ta.join(); tb.join()
print(res, '(alone: A=123, B=321)')
import sys; sys.exit(0 if res=={'A':'123','B':'321'} else 1)
