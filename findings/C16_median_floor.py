"""Genuine defect found by C16.R4 (repaired by a fix: commit in /repo).

median-x of an even number of values is (a + b) // 2 of the two middle
values: for non-integer numbers the floored mean can lie below both.
Run with PYTHONPATH=<checkout>/src; prints the observed medians."""
from DocumentTemplate.DT_HTML import HTML

t = HTML('<dtml-in seq><dtml-if sequence-end><dtml-var median-item>'
         '</dtml-if></dtml-in>')
bad = 0
for seq, lo, hi in (([1.5, 2.0], 1.5, 2.0), ([0.25, 0.5], 0.25, 0.5),
                    ([1, 2], 1, 2), ([-3, -2], -3, -2)):
    m = float(t(seq=seq))
    ok = lo <= m <= hi
    bad += not ok
    print(seq, '->', m, 'ok' if ok else 'NOT BETWEEN THE MIDDLE VALUES')
print('FAIL' if bad else 'PASS')
raise SystemExit(1 if bad else 0)
