from AccessControl.tainted import TaintedString as TS
from DocumentTemplate import HTML
def r(src, v): 
    try: return HTML(src)(x=TS(v))
    except Exception as e: return 'EXC %r' % e
print(1, r('<dtml-var x thousands_commas>', '<script>1000000'))
print(2, r('<dtml-var x url_unquote>', '<script>%3Cb%3E'))
print(3, r('<dtml-var x url_unquote_plus>', '<script>+%3Cb%3E'))
print(4, r('<dtml-var x fmt=comma-numeric>', '<script>1000000'))
print(5, r('<dtml-var x fmt=casefold>', '<SCRIPT>'))
print(6, r('<dtml-var x fmt=format>', '<SCRIPT>'))
print(7, r('<dtml-var x fmt=rsplit>', '<SCRIPT> a'))
print(8, r('<dtml-var x url_quote url_unquote>', '<SCRIPT>'))
print(9, r('<dtml-var x fmt=multi-line url_unquote>', '<%3Cscript%3E'))
print(10, r('<dtml-var x fmt=multi-line html_quote>', '<b>'))
print(11, r('<dtml-var x fmt=quoted html_quote>', '<b>'))
print(12, r('<dtml-var x fmt=url-quote url_unquote>', '<b>'))
