from DocumentTemplate import HTML
import html
v = "it's"
a = HTML('&dtml-x;')(x=v); b = HTML('<dtml-var x html_quote size=99>')(x=v)
print(repr(a), repr(b), repr(html.escape(v, 1)))
