import sys
sys.setrecursionlimit(20000)
from DocumentTemplate import HTML
from DocumentTemplate._DocumentTemplate import TemplateDict
# (1) recursion-limit raise after counted push
rec = HTML('<dtml-var rec>', x='LEAK')
outer = HTML('<dtml-try><dtml-var rec><dtml-except>caught</dtml-try>|<dtml-var x>', x='orig')
md_len = []
class Probe:
    pass
r = outer(None, {'rec': rec})
print('outer ->', r)
# (2) tree get_items
from TreeDisplay.TreeTag import tpRender
