"""The "..." expression shorthand as the first argument is a tag in the SGML
syntaxes but literal text in the EPFS syntax."""
from DocumentTemplate import HTML, String
a = HTML('<dtml-var "1+1">')()
b = HTML('<!--#var "1+1"-->')()
c = String('%(var "1+1")s')()
print(repr(a), repr(b), repr(c))
import sys; sys.exit(0 if a == b == c else 1)
