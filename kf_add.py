"""Helper (run by hand): add the findings of reports/<pid>/report.json to
known_findings.json with a note.  usage: kf_add.py PID 'substring' 'note'"""
import json, sys
pid, sub, note = sys.argv[1], sys.argv[2], sys.argv[3]
rep = json.load(open(f'/verif/reports/{pid}/report.json'))
kf = json.load(open('/verif/known_findings.json'))
have = {e['key'] for e in kf['known']}
n = 0
for v in rep['violations']:
    if sub in v['key'] and v['key'] not in have:
        kf['known'].append({'property': pid, 'key': v['key'],
                            'what': v['message'], 'note': note})
        n += 1
json.dump(kf, open('/verif/known_findings.json', 'w'), indent=1)
print('added', n)
