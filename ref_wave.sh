#!/bin/sh
# evaluate a refactoring agent's output dir: ref_wave.sh <PID> <outdir> <first-number>
pid=$1; out=$2; n=$3
for i in 1 2 3 4; do
  [ -f $out/refactor_$i.diff ] || continue
  name=R${pid}_$n
  echo "=== $name <- $out/refactor_$i.diff"
  /venv/bin/python /verif/refactor_eval.py $out/refactor_$i.diff --keep $name 2>&1 | grep -vE '^\{|^\}|^ "alarms": \{\}' | cut -c1-330
  n=$((n+1))
done
