"""Evaluate a sub-agent's seeded change (run by hand during development):

  seed_eval.py <PID> <out_dir> <i> [--keep name]

applies <out_dir>/change_i.diff to /repo, runs the pinned suite and the demo
(demo must FAIL with the change, PASS without), runs `dtverif check` for all
claimed properties, then reverts /repo (git checkout -- .).  With --keep the
change is stored as /verif/seeded/<name>/ (patch.diff, demo.py, meta.json).
"""
import json
import os
import subprocess
import sys

PY = '/venv/bin/python'


def sh(cmd, **kw):
    return subprocess.run(cmd, shell=True, capture_output=True, text=True,
                          **kw)


def main():
    pid, out, i = sys.argv[1], sys.argv[2], sys.argv[3]
    keep = sys.argv[sys.argv.index('--keep') + 1] if '--keep' in sys.argv \
        else None
    patch = os.path.join(out, f'change_{i}.diff')
    demo = os.path.join(out, f'demo_{i}.py')
    note = os.path.join(out, f'note_{i}.txt')
    env = dict(os.environ, PYTHONPATH='/repo/src')
    assert sh('git -C /repo status --porcelain').stdout.strip() == '', \
        '/repo not clean'
    base = sh(f'{PY} {demo}', env=env, cwd='/tmp')
    res = {'property': pid, 'patch': patch,
           'demo_pristine_rc': base.returncode}
    ap = sh(f'git -C /repo apply {patch}')
    if ap.returncode != 0:
        ap = sh(f'cd /repo && patch -p1 --fuzz=3 -s < {patch}')
    if ap.returncode != 0:
        print('PATCH DOES NOT APPLY', (ap.stderr + ap.stdout)[:300])
        sh('git -C /repo reset -q --hard HEAD; git -C /repo clean -fdq src')
        return 2
    try:
        t = sh(f'cd /repo && {PY} -m pytest -q -p no:cacheprovider 2>&1 '
               '| tail -1')
        res['tests'] = t.stdout.strip()
        d = sh(f'{PY} {demo}', env=env, cwd='/tmp')
        res['demo_changed_rc'] = d.returncode
        res['demo_changed_out'] = (d.stdout + d.stderr)[-300:]
        man = json.load(open('/verif/MANIFEST.json'))
        detected = {}
        for c in man['checks']:
            p = c['property_id']
            r = sh(f'cd /verif && {c["quick_cmd"]}')
            if r.returncode != 0:
                lines = [ln for ln in r.stdout.splitlines()
                         if ln.startswith(('FINDING', 'VIOLATION',
                                           'ANALYSIS-ERROR'))]
                detected[p] = {'rc': r.returncode, 'lines': lines[:4]}
        res['detected_by'] = detected
    finally:
        sh('git -C /repo reset -q --hard HEAD; git -C /repo clean -fdq src')
    assert sh('git -C /repo status --porcelain').stdout.strip() == ''
    ok = res['demo_pristine_rc'] == 0 and res.get('demo_changed_rc') == 1 \
        and '94 passed' in res.get('tests', '')
    res['valid_seed'] = ok
    print(json.dumps(res, indent=1)[:3000])
    if keep and ok:
        dst = f'/verif/seeded/{keep}'
        os.makedirs(dst, exist_ok=True)
        sh(f'cp {patch} {dst}/patch.diff; cp {demo} {dst}/demo.py')
        meta = {'property': pid,
                'needs': open(note).read() if os.path.exists(note) else '',
                'ran': ['git -C /repo apply patch.diff',
                        'pytest (94 passed)',
                        'demo.py: PASS pristine / FAIL changed',
                        'dtverif check (all claimed properties)'],
                'detected_by': sorted(k for k, v in
                                      res['detected_by'].items()
                                      if v['rc'] == 1),
                'analysis_error_in': sorted(k for k, v in
                                            res['detected_by'].items()
                                            if v['rc'] != 1),
                'detail': res['detected_by']}
        json.dump(meta, open(f'{dst}/meta.json', 'w'), indent=1)
    return 0


if __name__ == '__main__':
    sys.exit(main())
