#!/bin/sh
# re-evaluate kept seeds against the current checks: seed_reeval.sh NAME...
for n in "$@"; do
  d=$(mktemp -d)
  cp /verif/seeded/$n/patch.diff $d/change_1.diff
  cp /verif/seeded/$n/demo.py $d/demo_1.py
  /venv/bin/python -c "import json;print(json.load(open('/verif/seeded/$n/meta.json'))['needs'])" > $d/note_1.txt
  pid=$(/venv/bin/python -c "import json;print(json.load(open('/verif/seeded/$n/meta.json'))['property'])")
  echo "== $n ($pid)"
  /venv/bin/python /verif/seed_eval.py $pid $d 1 --keep $n 2>&1 | grep -E 'APPLY|valid_seed|FINDING|ANALYSIS' | cut -c1-200
  rm -rf $d
done
