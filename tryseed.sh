#!/bin/sh
# tryseed.sh <seed-or-refactoring-name> <PID>... : apply the patch to /repo, run the quick checks, revert
n=$1; shift
d=/verif/seeded/$n; [ -d $d ] || d=/verif/refactorings/$n
git -C /repo apply $d/patch.diff || { echo "PATCH FAILED"; exit 2; }
for p in "$@"; do (cd /verif && /venv/bin/python -m dtverif check $p --tier quick | grep -E "^FINDING|^ANALYSIS|^CHECK|Traceback" | cut -c1-420); done
git -C /repo checkout -- .; git -C /repo clean -fdq src
