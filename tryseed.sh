#!/bin/sh
# tryseed.sh <seed-or-refactoring-name> <PID>... : apply the patch to a scratch copy of /repo/src, run the quick checks there
n=$1; shift
d=/verif/seeded/$n; [ -d $d ] || d=/verif/refactorings/$n
t=$(mktemp -d /tmp/dtv_try.XXXXXX)
cp -r /repo/src $t/src
patch -p1 -s --fuzz=3 -d $t -i $d/patch.diff || { echo "PATCH FAILED"; rm -rf $t; exit 2; }
for p in "$@"; do (cd /verif && DTVERIF_REPO=$t DTVERIF_OUT=$t/out /venv/bin/python -m dtverif check $p --tier quick | grep -E "^FINDING|^ANALYSIS|^CHECK|Traceback" | cut -c1-420); done
rm -rf $t
