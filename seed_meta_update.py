"""Development helper: refresh detected_by / analysis_error_in / detail of
every kept seed from the output of `ref_all.py seeded` (scratch-copy runs of
all claimed quick checks).  usage: seed_meta_update.py <ref_all output>"""
import json, os, re, sys
cur = None
res = {}
for ln in open(sys.argv[1]):
    m = re.match(r'(\S+) (C\d\d) rc=(\d+)', ln)
    if m:
        cur = res.setdefault(m.group(1), {}).setdefault(
            m.group(2), {'rc': int(m.group(3)), 'lines': []})
    elif ln.startswith('    ') and cur is not None:
        cur['lines'].append(ln.strip())
n = 0
for name in sorted(os.listdir('/verif/seeded')):
    mp = f'/verif/seeded/{name}/meta.json'
    if not os.path.exists(mp):
        continue
    meta = json.load(open(mp))
    det = res.get(name, {})
    meta['detected_by'] = sorted(p for p, v in det.items() if v['rc'] == 1)
    meta['analysis_error_in'] = sorted(p for p, v in det.items()
                                       if v['rc'] == 2)
    first = meta.get('first_contact')
    if first is None and 'detail' in meta and \
            name.rsplit('_', 1)[1] in ('7', '8', '9'):      # wave 5
        meta['first_contact'] = {
            'detected_by': sorted(p for p, v in meta['detail'].items()
                                  if v.get('rc') == 1),
            'analysis_error_in': sorted(p for p, v in meta['detail'].items()
                                        if v.get('rc') == 2)}
    meta['detail'] = det
    json.dump(meta, open(mp, 'w'), indent=1)
    n += 1
print(n, 'seeds updated')
