"""Development helper: run every claimed quick check against every kept
refactoring (or seed) on scratch copies, 16 at a time.
usage: ref_all.py [refactorings|seeded] [name-prefix ...]"""
import json, os, shutil, subprocess, sys, tempfile
from concurrent.futures import ThreadPoolExecutor
kind = sys.argv[1] if len(sys.argv) > 1 else 'refactorings'
prefixes = [a for a in sys.argv[2:] if not a.startswith('--')]
only = [a[7:] for a in sys.argv[2:] if a.startswith('--pids=')]
PY = '/venv/bin/python'
pids = [c['property_id'] for c in json.load(open('/verif/MANIFEST.json'))['checks']]
if only:
    pids = [p for p in pids if p in only[0].split(',')]
names = sorted(n for n in os.listdir(f'/verif/{kind}')
               if os.path.isdir(f'/verif/{kind}/{n}')
               and (not prefixes or any(n.startswith(p) for p in prefixes)))

def one(name):
    d = tempfile.mkdtemp(prefix='dtv_')
    try:
        shutil.copytree('/repo/src', d + '/src')
        r = subprocess.run(['patch', '-p1', '-s', '--fuzz=3', '-d', d, '-i',
                            f'/verif/{kind}/{name}/patch.diff'],
                           capture_output=True, text=True)
        if r.returncode:
            return name, {'PATCH': (9, [r.stdout[:200]])}
        res = {}
        env = dict(os.environ, DTVERIF_REPO=d, DTVERIF_OUT=d + '/out')
        for pid in pids:
            p = subprocess.run([PY, '-m', 'dtverif', 'check', pid, '--tier',
                                'quick'], cwd='/verif', env=env,
                               capture_output=True, text=True)
            if p.returncode:
                lines = [ln[:260] for ln in p.stdout.splitlines()
                         if ln.startswith(('FINDING', 'ANALYSIS-ERROR'))]
                if not lines:
                    lines = (p.stdout + p.stderr).splitlines()[-3:]
                res[pid] = (p.returncode, lines[:4])
        return name, res
    finally:
        shutil.rmtree(d, ignore_errors=True)

with ThreadPoolExecutor(16) as ex:
    results = list(ex.map(one, names))
bad = 0
for name, res in results:
    if res:
        bad += 1
        for pid, (rc, lines) in res.items():
            print(f'{name} {pid} rc={rc}')
            for ln in lines:
                print('    ' + ln)
print(f'-- {kind}: {len(names)} run, {bad} with alarms')
