"""Development helper: run the self-validation catalogue (last 8 variants per property, or all with --full) in-process: varcheck.py [--full] [PID ...]"""
import sys, importlib
sys.path.insert(0,'/verif')
from dtverif.model import load_model
from dtverif import variants, selfval
model = load_model()
names = [a for a in sys.argv[1:] if a != "--full"]
full = "--full" in sys.argv
for pid, cat in sorted(variants.CATALOGUE.items()):
    if names and pid not in names: continue
    mod = importlib.import_module(f'dtverif.rules.{pid.lower()}')
    base, err = selfval.run_rules(mod, model)
    for v in (cat if full else cat[-8:]):
        m2 = selfval.apply_variant(model, v)
        if m2 is None:
            print(pid, 'STALE', v.name); continue
        keys, err = selfval.run_rules(mod, m2)
        new = keys - base
        if v.fires:
            ok = any(r == v.fires for r, _ in new)
            print(pid, 'ok  ' if ok else 'MISSED', v.fires, v.name, '' if ok else (sorted(new)[:2], err))
        else:
            ok = not new and not err
            print(pid, 'ok  ' if ok else 'FALSE-ALARM', 'silent', v.name, '' if ok else (sorted(new)[:2], err))
