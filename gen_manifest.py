"""Regenerates MANIFEST.json from the table below (run by hand after a check
is added; MANIFEST.json is the committed artefact)."""
import json

PY = '/venv/bin/python -m dtverif'
CLAIMED = {
    'C08': dict(
        technique='path-sensitive abstract interpretation (push/pop depth, '
                  'counted-push relation) over the structured CFG with '
                  'exceptional edges; who-may-touch query',
        text='Full mechanism: for every function of the repository that '
             'pushes on a namespace (found on each run), every exit of its '
             'CFG -- return, fall-through, explicit raise, exception '
             'propagating out of any call -- is shown to leave the '
             'caller-provided namespace at depth 0 and the recursion level '
             'restored. Covers all paths, including exceptional ones no test '
             'takes. Not decided: nothing material beyond the may-raise '
             'model.',
        ref='4 C08, 3.2, App. B/D',
        note='may-raise model (calls except a reviewed benign table / '
             'derived-benign repo functions, namespace subscripts, raise); '
             'TemplateDict._push/_pop are append/remove-from-end'),
}
CLAIMED['C04'] = dict(
    technique='inter-procedural path-sensitive taint analysis (abstract '
              'kinds T/P/C/H/Q/O, function summaries, table-driven '
              'dispatch) of the dtml-var pipeline',
    text='Full mechanism: with the inserted value a TaintedString, no text '
         'derived from it reaches an output sink of dtml-var (every return '
         'of Var.render, the append of the simple form, the _.string '
         'wrapper) as plain text or unquoted, on any path: all subsets of '
         'the modifier table in table order, every special format, every '
         'method-format name, C formats, size/etc, null/missing; and no '
         'html-escaping operation is applied to already escaped tainted '
         'text; comprehensions, any()/all() and container concatenation '
         'are interpreted. Not decided: taint of values manufactured inside user '
         'expressions; TaintedBytes; what AccessControl taints.',
    ref='4 C04, 3.4, App. C',
    note='library model read from AccessControl/tainted.py and a frozen '
         'str-method table; html.escape/urllib quote sanitise; known '
         'findings in known_findings.json')
CLAIMED['C06'] = dict(
    technique='regex NFA self-product (exponential-ambiguity criterion); '
              'raise/handler discipline and dominance queries over the '
              'compile-phase call graph; origin pairing; SCCs',
    text='Partial (structural necessary conditions): no regex of the '
         'compile phase is exponentially ambiguous; compile-phase code '
         'raises only ParseError(message, tag) and wraps the expression '
         'shorthand; no single-character index on the source text; '
         'parameter-dict subscripts are dominated by membership tests; '
         'caught exceptions are not destructured; every located error '
         'pairs a tag with that tag\'s own offset; call-graph cycles '
         '(input-proportional recursion) are enumerated; the tag registry '
         'resolves; the prefix grammar is the anchored regular language '
         '[A-Za-z][A-Za-z0-9_]* and every prefix-taking tag rejects other '
         'values; continuation and end tags are classified against the '
         'opening tag (loop-invariant context). Not decided: rejected iff '
         'the grammar is violated (as a whole); progress arithmetic of the '
         'scanner loops.',
    ref='4 C06, 3.5, 3.6',
    note='compile phase = reachable from String.cook and the registry '
         'constructors in the resolved call graph; Python re is a '
         'backtracking matcher')
CLAIMED['C14'] = dict(
    technique='who-may-catch analysis over the resolved call graph '
              '(including the block dispatch), handler/clause placement '
              'queries, exit-kind interpretation',
    text='Partial: dtml-return transparency -- the least set of functions '
         'that can let DTReturn out is computed and every try guarding one '
         'is shown not to swallow it; only the template call catches it, '
         'around exactly the top-level render; the else body is rendered '
         'in the else clause, the finally body in a finally clause (one '
         'site), the handler body under try/finally without except; '
         'dtml-raise has no normal exit; handlers are searched first-match '
         'in written order (one loop over the handler list; for all 8 '
         'truth assignments of exact-name / bare / base-class match the '
         'loop body returns the block iff one holds) with base-class '
         'recursion. Not decided: class '
         'matching on concrete hierarchies, values of error_type/value.',
    ref='4 C14',
    note='values called through the namespace are assumed not to raise '
         'DTReturn themselves')
CLAIMED['C09'] = dict(
    technique='path-sensitive interpretation of the condition loop '
              '(evaluation count, store-before-body, reachability after a '
              'true branch); tuple-shape agreement compiler vs interpreter',
    text='Partial: in the conditional interpreter every iteration path '
         'evaluates its condition exactly once, a rendered body is followed '
         'by loop exit on every path, the else body is unreachable after a '
         'true branch; a named condition is cached (fresh per-conditional '
         'dict, pushed before the loop, popped in finally) before its body '
         'renders; the KeyError guard covers only the lookup and re-raises '
         'foreign keys; the tuples built by if/unless/else/call have the '
         'shape the interpreter reads and all three commands compile to '
         'the one conditional interpreter; opcodes agree. Not decided: '
         'truthiness of user values, what user callables do.',
    ref='4 C09, App. B',
    note='anchors located semantically in render_blocks_ (push of a local '
         'dict followed by try/while)')
CLAIMED['C02'] = dict(
    technique='forward dataflow of push precedence classes over all paths; '
              'guard dominance; constant-argument and resolved-callee '
              'queries; direction agreement; C08 engine',
    text='Partial: on every path of the template call the namespace sources '
         'are pushed in the documented precedence order and all six are '
         'pushed, the client path in the given order; keyword defaults beat '
         'the construction mapping and underscore names are filtered; '
         'expressions fetch names with auto-call off, md[name] with it on, '
         'auto-calls are guarded by the flag, templates are rendered with '
         'the current namespace, uncalled fetches occur only at reviewed '
         'sites; push/lookup/pop agree on the stack end; block bindings are '
         'popped on every normal exit. Not decided: values of lookups, the '
         '63-combination table.',
    ref='4 C02, App. B',
    note='precedence classes by origin of the pushed expression')
CLAIMED['C05'] = dict(
    technique='classification of every dynamic-name attribute read and '
              'every element read by reaching definitions of the callee '
              '(guard-or-fallback idiom); path-sensitive dominance; '
              'structure and propagation queries',
    text='Full mechanism: every getattr-family call with a dynamic name and '
         'every element read of an iterated client sequence in the shipped '
         'packages is classified (guarded idiom / probe / engine-internal / '
         'unguarded); the underscore refusal dominates the client read and '
         'every cache store on all paths; with guards present expressions '
         'run restricted with _getattr_/_getitem_ bound to the guards and '
         'no builtins; both guards are installed on every namespace built '
         'while rendering, and only on namespaces the installing function '
         'created (a caller\'s guards are never replaced); refused '
         'elements removed by saved position are removed from the highest '
         'position down. Not decided: what the guard answers.',
    ref='4 C05',
    note='11 genuine unguarded channels are listed as known findings '
         '(sequence-var-x, first/last-x, statistics, sort keys, tree '
         'id/url/sort); namespace-designated mappings are not judged')
CLAIMED['C12'] = dict(
    technique='effect classification of every use of the sequence value on '
              'the batch path; ownership query for the wrapped iterator',
    text='Full mechanism: in the functions of the batch path no operation '
         'that forces the whole sequence (len, iteration, truth test, '
         'list/tuple/sorted..., slicing, negative index) is applied to the '
         'sequence value, len() only in the handler of a failed probe, the '
         'sequence is handed only to analysed or explicitly excepted '
         'functions; next() on the wrapped iterator occurs only in '
         'SequenceFromIter.__getitem__ under the index test, negative '
         'indexes are rejected first. Not decided: the numeric look-ahead '
         'bound.',
    ref='4 C12, App. B',
    note='sequence names derived from sequence_ensure_subscription results, '
         'self.items and the opt parameter')
CLAIMED['C13'] = dict(
    technique='flow-sensitive may-alias analysis of caller data vs. '
              'mutating operations; keyed-sort and predicate-typing '
              'queries; alpha-renamed AST twin comparison; table folding',
    text='Partial: no mutating operation in DT_In/DT_InSV has a receiver '
         'that may alias the caller\'s sequence or its elements (sort and '
         'reverse return fresh lists); every sort of the decorated list is '
         'keyed on the decorated key only (stability); the basic-type '
         'predicate is applied to type(value); the single- and multi-key '
         'extractors map every kind of key (None / false-but-not-None / '
         'ordinary / callable, incl. a raising or None-returning callable) '
         'to the same result -- None and failures to the smallest key, '
         'false values to themselves, callables to their result -- decided '
         'by scenario interpretation, plus an AST twin comparison when the '
         'twin shape is present; asc/desc map to +1/-1, anything else raises '
         '(scenario interpretation of the code that reads the direction word), the '
         'comparator multiplies. Not decided: the order produced for '
         'concrete key values, /nocase and locale comparison results.',
    ref='4 C13, App. B',
    note='caller data = namespace values, sequence parameters, results of '
         'client methods and their elements')
CLAIMED['C15'] = dict(
    technique='table queries (duplicates, name/option agreement), '
              'iteration-source query, statement-order check of pipeline '
              'stage markers, name/function agreement',
    text='Partial: the modifier table has no duplicates, its function names '
         'equal the valueless options dtml-var accepts, the applied '
         'modifiers are the table filtered in table order; in Var.render '
         'the stage markers missing < null < fmt < C-format < modifier loop '
         '< size/etc < final return appear in that order; lower/upper/'
         'capitalize call their own string method, url_(un)quote(_plus) '
         'use the matching urllib function, sql_quote removes NUL/^Z/CR and '
         'doubles quotes, special-format aliases map to the like-named '
         'function, the two fmt dispatch copies are identical. Not decided: '
         'truncation arithmetic, round-trip laws on values.',
    ref='4 C15, App. B',
    note='stage markers located by the option literal they test')
CLAIMED['C03'] = dict(
    technique='resolved-callee query for the escaper on every quoting path; '
              'set inclusion fast-path characters vs. characters '
              'html.escape rewrites (read from the stdlib source); '
              'literal/name agreement; guard query',
    text='Partial: every html-quoting path (simple form, html_quote '
         'modifier, fmt=html-quote) resolves to one function returning '
         'html.escape(value) with quote on and no other rewriting; the '
         'fast path\'s needs-quoting character set covers every character '
         'the escaper rewrites and its polarity is right (decided by '
         'interpreting one block iteration for a str with / without a '
         'tested character: the former always reaches the escaper); the option name '
         'the entity syntax appends equals the option dtml-var accepts, the '
         'simple-form key and the name the modifier loop compares; '
         'modifiers of &dtml.m1.m2-name; become options with the name '
         'first; on the plain path a str value is never rewritten. Not '
         'decided: html.escape itself (trusted).',
    ref='4 C03',
    note='html.escape character sets are read from the interpreter\'s '
         'html/__init__.py')
CLAIMED['C19'] = dict(
    technique='call-site query over resolved callees with an encoding '
              'parameter (incl. table dispatch); def-use tracking of '
              'rendered pieces into +, % and str.join; decoder argument '
              'check',
    text='Partial: the parser passes the template encoding to every block '
         'command; every call in render code whose resolved callee takes '
         'an encoding (render_blocks, join_unicode, html_quote, the tree '
         'renderers) binds it to the stored/received encoding; values '
         'produced by render_blocks are combined only by join_unicode, '
         'never by +, % or str.join (across function boundaries); '
         'html_quote and join_unicode decode with the encoding they are '
         'given, one piece at a time; the compiler recursion stays on the '
         'template object (sections are not parsed by their default-'
         'encoded sub-template); on every path an exception object is '
         'inserted as its message (0 / 1 / n arguments, scenario '
         'interpretation); the inserted value is converted only by ustr(), '
         'never by str()/repr()/format() on the default path. Not decided: '
         'ustr() on all value types; codec tables.',
    ref='4 C19, App. B',
    note='4 known findings: non-block commands (Var) are constructed '
         'without the encoding and Var.render reaches html_quote without '
         'it')
CLAIMED['C17'] = dict(
    technique='enumeration of stores to shared objects in render-reachable '
              'code; path-sensitive re-cook obligation; width/set '
              'agreement; may-alias analysis of caller data; '
              'mutable-default query',
    text='Partial: no function reachable while rendering stores to an '
         'attribute or item of the template, of a compiled tag object, of a '
         'class or of a module-level container; every method that assigns '
         'the source re-cooks on every path to its exit; __getstate__ skips '
         'exactly _v_/_p_ prefixed attributes with a matching slice width; '
         'read_raw stores nothing and reads the file; no render code '
         'mutates an object that may alias namespace values, call '
         'arguments or client method results; mutable defaults are never '
         'mutated; stores through locals and parameters that may be bound '
         'to an attribute object of a shared tag (followed across calls) '
         'count as stores to the tag; munge() re-initialises the defaults '
         'for every given mapping, also an empty one. Not decided: '
         'equality of outputs across histories.',
    ref='4 C17, App. B',
    note='render phase by resolved reachability plus the per-render helper '
         'classes')
CLAIMED['C18'] = dict(
    technique='lock-scope and publication-order check (path-sensitive), '
              'who-may-write query, shared-object store enumeration, '
              'locked-only closure on the reverse call graph, reachability '
              'from the locked region',
    text='Partial: both volatile stores of cook are inside the compile lock '
         'and _v_blocks precedes _v_cooked on every path, readers test the '
         'flag published last; only cook (and freshly constructed section '
         'templates) write the compiled state; no render-time store to an '
         'object shared by concurrent renders; the tag registry is written '
         'only at import time or by functions whose every caller chain '
         'passes through cook; nothing reachable under the non-reentrant '
         'lock re-acquires it; each top-level call builds its own '
         'namespace. Not decided: schedules, interleavings inside '
         'dependencies, linearizability as a whole.',
    ref='4 C18',
    note='assumes GIL atomicity of single attribute stores')
CLAIMED['C10'] = dict(
    technique='loop-bound agreement (linear forms), store-site query, '
              'provider table, probe structure, AST twin comparison',
    text='Partial (structural necessary conditions): in both item loops the '
         'element read and sequence-index use the loop variable, first/last '
         'markers compare with the loop\'s own bounds, sequence-start is '
         'cleared after a rendered element and never on the skip path; '
         'every literal sequence-* key is stored through the prefix-aware '
         'mapping and both prefix strippers strip exactly "sequence-"; the '
         'alias reader strips the stored prefix by its own width and never '
         'splits the key at a character the prefix grammar allows; '
         'every documented variable and statistic has a provider; an empty '
         'sequence returns the else body (or nothing) before any push; the '
         'per-item push decision is identical in both renderers. Not '
         'decided: the documented values (number, letters, roman, even/odd, '
         'first-x/last-x run boundaries).',
    ref='4 C10',
    note='item loops located as the range() loops that render the section')
CLAIMED['C11'] = dict(
    technique='linear normal forms of opt() arguments, published keys and '
              'the formula sites inside opt; parameter-read and flag-guard '
              'queries; abstract interpretation of opt() in the zone '
              '(difference-bound) domain with element probes as guards',
    text='Partial: at every site the next batch is requested at '
         'end+1-overlap and the previous one up to start-1+overlap with the '
         'same size/orphan/sequence; *-start-index/-end-index/-size follow '
         'one formula at all sites; the five parameters are read through '
         'int_param, next-/previous-sequence are set only under index == '
         'last / first, the displayed range is range(start-1, end); inside '
         'opt the formula sites (end = start+size-1, start = end+1-size, '
         'size = end+1-start, probes at end+orphan-1 / start-1 / end-1, '
         'end >= start) match the documented window; and, for every '
         'non-empty sequence and orphan >= 0, every return path of opt is '
         'proved (zone abstract interpretation; a successful probe '
         'sequence[i] gives i < length, a failed one i >= length) to '
         'deliver start >= 1, start <= end, end <= length and size >= 1 -- '
         'the one path on which end <= length cannot be established (an '
         'explicit end beyond the length is not cut back: IndexError when '
         'the batch is rendered) is a genuine defect listed as a known '
         'finding. Not decided: the orphan / overlap tiling law and the '
         'termination of following next links.',
    ref='4 C11, 9.2, 9.3',
    note='zone domain over start/end/size/orphan/length; an un-modelled '
         'update on a failing path is an ANALYSIS-ERROR, not a pass')
CLAIMED['C01'] = dict(
    technique='regex language inclusion (subset construction); '
              'who-may-call query with origin pairing; provenance '
              'classification; width agreement',
    text='Partial: the line-end pattern\'s language is included in '
         '[ \\t]*\\n, it is applied anchored at the cursor and the cursor '
         'advances by the match length; only the block parser skips line '
         'ends and only at the end of a block tag; everything appended to '
         'a block list is a plain slice of the source (guarded only by '
         'non-emptiness) or a compiled command; a str/bytes block reaches '
         'the output unchanged and pieces are joined in list order; the '
         'scanner\'s prefix literals match their slice widths and name '
         'offsets; the EPFS tag pattern\'s language is included in the tag '
         'grammar %(name[ args])suffix with balanced quotes and a '
         'printf-style or block-marker suffix (it claims nothing else). '
         'Not decided: that offsets tile the text, that the hand-written '
         'SGML scanner never claims near-tag text, the concatenation law.',
    ref='4 C01, 3.5',
    note='reference language [ \\t]*\\n')
CLAIMED['C07'] = dict(
    technique='override-set query on the class hierarchy; normalised '
              'decision comparison of the two parseTag siblings; '
              'scanner/reader key agreement; entity constants',
    text='Partial: subclasses of String override only the scanner hooks '
         '(tagre, parseTag, SubTemplate, varExtra, errQuote, __str__) and '
         'UI methods -- parse, parse_block, parse_close, _parseTag, '
         'skip_eol, cook, __call__, commands have one definition; the two '
         'tag readers are compared by symbolic path enumeration: for every '
         'jointly satisfiable pair of paths (atoms = their leaf tests, the '
         'end-tag marker and a failing command lookup) both give the same '
         'result tuple or error; every return path of the SGML scanner, '
         'through its helper methods, definitely assigns the groups '
         '0/end/name/args and the offset '
         'the reader uses, the EPFS pattern names the groups its reader '
         'reads; entities compile to var tags with html_quote / split '
         'modifiers; SGML var tags carry the plain format. Not decided: '
         'that the three scanners delimit the same tags on all inputs.',
    ref='4 C07',
    note='shares C03.R3 and C01.R4')
CLAIMED['C20'] = dict(
    technique='stage extraction and mirror comparison of the codec '
              'pipelines; arithmetic agreement of chunk constants; AST '
              'twin comparison of the encoders; path-sensitive push/pop '
              'balance of the id path; def-use classification of id '
              'comparisons; handler-scope query',
    text='Narrow: decode_seq applies the inverse stages of encode_seq in '
         'reverse order (ascii, translate, padding, base64, zlib, json), '
         'the two translation tables are inverse, compress/decompress use '
         'one text encoding; encoder chunk a and decoder chunk b satisfy '
         '4a = 3b and each function uses one chunk constant; encode_seq '
         'and encode_str chunk, strip and translate identically; the link '
         'and cookie parameters written are the ones read back with the '
         'same meaning. Click-history half, structural necessary '
         'conditions only: the id path put into the links is a balanced '
         'stack (own id appended exactly once before the link is built and '
         'before recursing, removed on every normal exit); the state '
         'update compares path ids only with state ids (positional walk); '
         'expand_all confines a failing child to that child; a live '
         'pruning loop deletes only from the node\'s own child list. Not '
         'decided: state evolution over click histories as a whole, the '
         'round trip on all states.',
    ref='4 C20, 9.2',
    note='click-history clauses are necessary conditions, not the '
         'behaviour')
CLAIMED['C16'] = dict(
    technique='formula agreement over the domain of rational functions '
              '(canonical quotients of polynomials in S1 = sum x, S2 = sum '
              'x*x and n, sqrt uninterpreted); partial evaluation of the '
              'extreme-value update over the finite set of orderings; '
              'constant folding of the median index forms',
    text='Narrow (formula clauses only): one round of the item loop of '
         'sequence_variables.statistics adds x, x*x and one value to its '
         'accumulators, the square being computed before any accumulator '
         'changes (a non-numeric value leaves them alone); mean, total, '
         'variance-n, standard-deviation-n, variance and '
         'standard-deviation are, as rational functions of S1, S2 and n, '
         'the textbook definitions, the sample variants only under n > 1; '
         'the running minimum / maximum are the order-theoretic extremes '
         'for every ordering of the new value; the median is the middle '
         'element for an odd count and the mean of the two middle values '
         'for an even one, floor division being admitted only under an '
         'integer test (this found a genuine defect, repaired by a fix: '
         'commit); None is not recorded on the non-numeric path. Not '
         'decided: the values themselves for run-time data (rounding, '
         'user types that add / compare oddly, mixed numeric and '
         'non-numeric sequences), the text of the "between a and b" '
         'fallback, which statistics appear for non-numeric data.',
    ref='9.2 (C16), 4 C16',
    note='accumulator / value-list / count roles are derived from the keys '
         'they are published under (total-, count-, min-, max-)')
PENDING = {}
# clauses added by later rounds (inserted before "Not decided" of the text)
EXTRA_TEXT = {
    'C01': 'The scanner is interpreted over what its tests establish about '
           'the text at the candidate position (prefix knowledge): every '
           'SGML tag prefix is recognised on some path and the name / '
           'entity body is read from the first character after it, '
           'whatever the code shape (merged branches, helpers, '
           'startswith); the compiled blocks a template stores are the '
           'parse of its own source, or come from a shared store keyed by '
           'the reader class; a hand-written line-end scan treats only '
           'blank and tab as blanks.',
    'C02': 'A namespace source that is modified in place through self '
           '(template variables) is never a mutable class-level default '
           'left unbound by the initialiser; a keyword-only '
           '_.namespace(...) keeps its values in a plain mapping (they '
           'are not called when read).',
    'C11': 'The orphan rule of opt() holds on every path: a window end '
           'computed from the size is the last element or leaves >= '
           'orphan elements after it, a start computed from the size is '
           '1 or leaves >= orphan elements before it (zone with ghost '
           'variables x + orphan).',
    'C06': 'Tags are classified only through the wrapper that resolves '
           'lazily registered commands (no raw parseTag call in the '
           'parser); single-character indexes of the scanner lie inside '
           'the matched prefix on every path.',
    'C07': 'Both tag readers compare the argument text without surrounding '
           'blanks (stripped by the reader or, for SGML, by the scanner on '
           'every tag path); open and close tags are delimited by the same '
           'events relative to the prefix (quote-parity evaluator).',
    'C08': 'Popping zero entries removes nothing: _pop(n) is exact for '
           'n = 0 or every caller passes a count proven >= 1.',
    'C09': 'An undefined name never selects its body (no path of one loop '
           'round through the KeyError handler renders a body); the '
           'compiled if/elif/else sequence is accepted by the DFA '
           'CB(CB)*B? whatever way it is assembled (shape domain).',
    'C12': 'Every element pulled from the wrapped iterator is stored in '
           'the cache before the next pull, loop round or return (flow '
           'obligation). The numeric look-ahead bound is decided for '
           'opt(): on every path elements pulled <= end + size + orphan '
           '(zone abstract interpretation with a ghost counter). Not '
           'decided: how many windows a template asks for (next-batches '
           'walks them all by design), what a user sequence pulls inside '
           'its own __getitem__.',
    'C13': 'An element that is a (key, value) pair is decorated with its '
           'key only, a plain element with itself (scenario interpretation '
           'of the decorating loop); comparator reads are position 0 or a '
           'loop position.',
    'C15': 'The relative order of every non-commuting pair of modifiers is '
           'the documented one (sql_quote after url_unquote); missing= is '
           'returned under a membership test, not from a handler around '
           'the evaluation of the value; option values bound to a local '
           'are not consulted by truthiness; the digit-grouping regex is '
           'fed the integer part only (part-tag flow domain).',
    'C17': '__getstate__ is partially evaluated over the attribute names '
           'the template classes assign: no volatile one is kept, every '
           'other one is kept unchanged.',
    'C19': 'Compiled blocks taken from a store shared between templates '
           'are keyed by the encoding; join_unicode never assigns into the '
           'sequence it was given unless every caller passes a list of its '
           'own.',
    'C20': 'The two translation tables are constant-folded to 256-byte '
           'tables that undo each other on the base64 alphabet; the link '
           'parameters are found by partial evaluation of the formatted '
           'strings for an expanded / collapsed node; every node id is '
           'read with the id attribute configured on the tag '
           '(inter-procedural origin of the attribute name).',
}
# clauses added from seed waves 6 and 7
EXTRA_TEXT2 = {
    'C01': 'Outside the constructors the compiled block lists of a tag are '
           'only handed to render_blocks or passed on (never indexed, '
           'measured, repeated or returned).',
    'C02': 'The mapping dtml-in lays over the namespace answers a key '
           'without a dash only when a non-empty prefix is configured and '
           'the key starts with it (string-emptiness abstract '
           'interpretation of __init__ and __getitem__); values of the '
           'template-variable layer are never handed to the construction-'
           'time layers on initialisation / restore.',
    'C03': 'The option dictionary is not edited for a modifier option '
           'after the modifier list was derived from it; the tests that '
           'skip a requested quoting look at nothing but the taint mark.',
    'C04': 'No decorator whose wrapper can return anything but the wrapped '
           'call\'s result stands between the dispatch tables and a '
           'modifier / special format (value-keyed memoisation conflates '
           'tainted and plain strings).',
    'C06': 'A continuation table is a tuple of names (not a string, on '
           'which the readers\' membership test is a substring test); in a '
           'mutually recursive group of the compiler each function has a '
           'single call site leading back into the group (no double '
           'descent per nesting level).',
    'C07': 'One command table, updated in place and never rebound on a '
           'class or instance; the EPFS tag language includes name + any '
           'white space + arguments + suffix (lower bound by regex '
           'inclusion).',
    'C08': '_push adds exactly one entry, the object it is given, on every '
           'path; with-statements over contextlib.contextmanager '
           'generators are judged by what the generator guarantees (clean-'
           'up after an unprotected yield is skipped on exceptions).',
    'C09': 'The "name not defined" protocol agrees on both sides: the '
           'interpreter treats a KeyError as undefined only on paths that '
           'established args[0] == name, the namespace raises exactly '
           'KeyError(key); the call-signature marker isDocTemp is read '
           'from the acquisition-unwrapped value.',
    'C10': 'The variable object answers only its own names (see C02); every '
           'length-2 test on an element is conjoined with a tuple type '
           'test; "no such name" for an element attribute depends on the '
           'failure of the read, never on the value read.',
    'C11': 'The batch lists memoised in the variable cache are re-iterable '
           '(no one-shot iterator); next-sequence / previous-sequence are '
           'in the initial table or assigned on every path before the body '
           'is rendered.',
    'C12': 'The wrapped iterator is not handed out (return / call) except '
           'as a bulk pull stored in the same statement; the size the '
           'window computation returns is the size parameter, re-assigned '
           'only under size < 1.',
    'C13': 'What the constructor derived from the literal sort= is read by '
           'the sort routine only as fall-back for a missing spec argument '
           '(sort_expr specs are interpreted themselves).',
    'C14': 'The handler table and blocks of the try / raise / return tags '
           'are re-iterable; error_type and the handler search read the '
           'same class-name attribute.',
    'C15': 'The C-style format of a %(name)fmt tag reaches the var tag '
           'untransformed; in every fmt dispatch chain the method test '
           'precedes the special-format test; option values handed to a '
           'helper are not consulted by truthiness there either; options '
           'are not edited after the modifier list was derived.',
    'C16': 'A sort statement dominates every median store; where a '
           'statistic is selected by alias prefix, no alias is a prefix of '
           'a later one.',
    'C17': 'No one-shot iterator is stored in an attribute or container '
           'entry; mutable default arguments are neither mutated nor '
           'handed out; render-time stores to attributes of imported '
           'modules / global names are enumerated with the other shared '
           'writes.',
    'C18': 'No attribute of a template or compiled tag holds a one-shot '
           'iterator; process-wide module state written during rendering '
           'is a race.',
    'C19': 'The encoding handed to a tag constructor is the template\'s own '
           '(section.encoding counts only if every SubTemplate override '
           'threads it); rendered pieces are not %-formatted / str.format-'
           'ed / f-stringed; a decoder re-assigns its encoding parameter '
           'only as default and decodes with no re-assigned module global.',
    'C20': 'No state (or part of one) is a mutable default argument; no '
           'collection handed down the tree recursion and filled on the '
           'way decides by id membership (ids are unique among siblings '
           'only).',
}
# clauses added from seed waves 8 and 9
# clauses added with seed wave 10 / refactoring wave 7
EXTRA_TEXT4 = {
    'C01': 'A rejected tag candidate costs the scanner exactly one '
           'character; render_blocks returns the empty text, the single '
           'piece or the ordered join according to the number of pieces '
           '(interpreted per size class).',
    'C02': 'Whether a client was given is decided by identity with None, '
           'never by its truth value; the stack is searched from the push '
           'end also when the search loop lives in a helper that is handed '
           'the stack.'
           '`_.namespace()` hands its keywords on as keywords; the attribute wrapper caches found values only; the sub-template test is subclass-tolerant once the package has a namespace subclass.',
    'C03': 'The var branch is judged also when it is a helper with early '
           'returns and a for/else character test.',
    'C04': 'No table function is re-bound at module level to a wrapper.',
    'C05': 'The guard-or-fallback idiom is recognised in its early-return '
           'form; InstanceDict takes its guard from the namespace '
           '(structural).'
           'A guard copied into a new namespace is read as an attribute (instance or class level).',
    'C06': 'Every section the parser collected for a block tag is compiled '
           'or rejected on every normally returning path of its '
           'constructor; a pattern built from template text is never '
           'applied while compiling.'
           'The attribute parsers apply their patterns with match() at the cursor only.',
    'C07': 'Tags that name their operand twice (unnamed + name=, unnamed + '
           'expr=, name= + expr=) or not at all reach no return of '
           'name_param (scenario evaluation).',
    'C09': 'Deferred rendering of the selected body counts as the render '
           'site.',
    'C10': 'The mapping option alone decides between subscription and '
           'attribute access; each switch of dtml-in is copied under its '
           'own presence only.'
           'No exit from a renderer before the emptiness probe; data[\'mapping\'] is set from the option in both renderers.',
    'C12': 'sequence_ensure_subscription returns the object itself or the '
           'lazy wrapper, nothing materialised.'
           'The wrapper\'s buffer is read by the element reader only; an object recognised as the wrapper is never materialised.',
    'C13': 'No extracted sort key is handed on while it may be None; cmp() '
           'is three-way (scenario evaluation).'
           'A \'nocase\' sort name selects a case-folding function (if-chain or table).',
    'C14': 'The value of dtml-return does not pass through and/or; handler '
           'entries are appended in source order inside the walk over the '
           'clauses.'
           'No try/except of the dtml-in renderers renders a section in its body; class names are matched by equality; exception names come from split() without an argument.',
    'C15': 'size= truncates only texts longer than size (three scenarios); '
           'the null= test is not an arm of the fmt= statement; a find() '
           'result is not compared with 0 in table functions.'
           'The urllib functions behind the url modifiers are called with the value alone.',
    'C16': 'count-<name> is stored on every path after the preset.',
    'C17': 'First-use memos on the template object are reset by cook / '
           'munge; no function writes module-level containers; munge takes '
           'over an empty source and hands mapping / keywords to initvars '
           'as given.'
           'A value-keyed memo is typed; no non-volatile attribute is removed from the pickled state under a condition.',
    'C18': 'No render-time callable of a compiled object returns a possibly '
           'mutable object built while compiling.',
    'C19': 'The codec of a decode is never chosen by looking at the bytes; '
           'join_unicode joins the pieces in list order (structural, '
           'through helpers).',
    'C20': 'No table keyed by node id is carried through the walk in a '
           'closure; an id that was read is not tested for truth; a click '
           'is applied only to a fresh or validated state (typestate).',
}

EXTRA_TEXT3 = {
    'C02': 'No source on the namespace stack is skipped without being asked '
           'for the name (the only way on is the KeyError / NameError of '
           'the lookup); the instance wrapper resolves names from '
           'attributes only.',
    'C03': 'The fast-path characters are those whose presence alone decides '
           'the predicate (three-valued evaluation); a non-text value is '
           'converted and then quoted like text (scenario); ustr() returns '
           'text untouched; the modifiers applied are the table functions '
           'themselves.',
    'C04': 'The modifiers a tag applies are the table functions themselves, '
           'never callables wrapped around them.',
    'C05': 'The type registered as an allowed container is that of the '
           'DictInstance inside the 1-tuple a TemplateDict call returns.',
    'C06': 'A tag name re-assigned from another tag occurrence no longer '
           'pairs with an offset.',
    'C07': 'No scanner pattern lists tag names.',
    'C08': 'Recursion-level changes through helper methods of the namespace '
           'are summarised (net change 0 at every exit).',
    'C09': 'The if-cache receives no entry for an undefined name; namespace '
           'layers signal missing / refused names only with exceptions the '
           'lookup skips.',
    'C10': 'The skip_unauthorized handler guards only the element fetch; '
           'the prefix-aware mapping stores under both names on every path; '
           'pair predicates (also in helpers) require a tuple.',
    'C11': 'A sequence view that reads its base at an index computed by '
           'subtraction refuses indexes beyond the length itself; the '
           'default of int_param is taken only where the attribute is '
           'missing; the parameters reach opt() in their positions.',
    'C12': 'Only the constructor and the element reader touch the wrapped '
           'iterator; no generator or loop hands its elements on.',
    'C13': 'The case-insensitive comparison functions compare the folded '
           'strings only (case-only differences are ties).',
    'C14': 'The variable carrying the dtml-return value is not re-assigned '
           'before the call returns it.',
    'C15': 'An option value read inside a helper that is given the option '
           'dictionary and a constant option name is not replaced by a '
           'default when merely false.',
    'C16': 'The item loop of the statistics is never left early; an integer '
           'test that licenses floor division concerns the floored value.',
    'C17': 'A numerically initialised accumulator is updated in place only '
           'with engine-computed numbers; memoised functions return '
           'immutable values; class-level mutables are not mutated through '
           'self.',
    'C19': 'A block tag keeps block lists, not section templates; the '
           'encoding argument of decode-capable calls derives from the '
           'template only; no combined decode of several pieces anywhere.',
    'C20': 'Every id is read with the configured attribute, also when the '
           'reader has a default.',
}
EXTRA_TECH = {
    'C01': 'prefix-knowledge abstract interpretation of the SGML scanner',
    'C12': 'zone (difference-bound) abstract interpretation of opt() with '
           'a ghost pull counter',
    'C17': 'partial evaluation of __getstate__ over the statically known '
           'attribute names',
    'C20': 'constant folding of the translation tables; partial string '
           'evaluation of the link formats',
    'C09': 'DFA-valued shape domain for the compiled tuples',
    'C11': 'zone (difference-bound) abstract interpretation of opt() '
           'with ghost sums',
}
NA = {}
ALL = ['C%02d' % i for i in range(1, 21)]


def main():
    checks = []
    for pid in ALL:
        if pid not in CLAIMED:
            continue
        c = dict(CLAIMED[pid])
        if pid in EXTRA_TEXT:
            t = c['text']
            t = t.replace('Not decided: the numeric look-ahead bound.', '')
            i = t.find('Not decided')
            c['text'] = (t + ' ' + EXTRA_TEXT[pid]) if i < 0 else (
                t[:i] + EXTRA_TEXT[pid] + ' ' + t[i:])
        if pid in EXTRA_TEXT2:
            t = c['text']
            i = t.find('Not decided')
            c['text'] = (t + ' ' + EXTRA_TEXT2[pid]) if i < 0 else (
                t[:i] + EXTRA_TEXT2[pid] + ' ' + t[i:])
        if pid in EXTRA_TEXT3:
            t = c['text']
            i = t.find('Not decided')
            c['text'] = (t + ' ' + EXTRA_TEXT3[pid]) if i < 0 else (
                t[:i] + EXTRA_TEXT3[pid] + ' ' + t[i:])
        if pid in EXTRA_TEXT4:
            t = c['text']
            i = t.find('Not decided')
            c['text'] = (t + ' ' + EXTRA_TEXT4[pid]) if i < 0 else (
                t[:i] + EXTRA_TEXT4[pid] + ' ' + t[i:])
        if pid in EXTRA_TECH:
            c['technique'] += '; ' + EXTRA_TECH[pid]
        checks.append({
            'property_id': pid,
            'quick_cmd': f'{PY} check {pid} --tier quick',
            'thorough_cmd': f'{PY} check {pid} --tier thorough',
            'evidence_file': f'/verif/evidence/{pid}.json',
            'replay_cmd_template': f'{PY} replay {{path}}',
            'engine': 'dtverif',
            'level_claimed': {'category': 'other', 'text': c['text'],
                              'design_ref': c['ref']},
            'level_note': c['note'],
            'technique': 'static analysis: ' + c['technique'],
        })
    na = []
    for pid in ALL:
        if pid in CLAIMED:
            continue
        if pid in NA:
            na.append({'property_id': pid, 'reason': NA[pid]})
        else:
            na.append({'property_id': pid, 'reason': PENDING.get(
                pid, 'static check designed (DESIGN.md section 4) but not '
                     'yet implemented and validated; not claimed until it '
                     'is')})
    man = {
        'version': 1,
        'setup_cmd': f'{PY} selfcheck',
        'hooks': {
            'guard': 'DOCUMENTTEMPLATE_VERIF',
            'enable': 'not used: static analysis needs no instrumentation; '
                      'no hook commits exist in /repo',
            'baseline_off_cmd': 'cd /repo && /venv/bin/python -m pytest -ra '
                                '-q -p no:cacheprovider --timeout=900',
            'source_commits': [],
            'add_only': True,
        },
        'engines': [{
            'name': 'dtverif',
            'path': '/verif/dtverif',
            'serves_properties': sorted(CLAIMED),
            'kind_free_text': 'repository-specific static analysers over '
                              'the ast of /repo/src (stdlib only): source '
                              'model + call resolution, structured CFG '
                              'interpreter with exceptional edges, abstract '
                              'domains, regex automata, agreement queries',
        }],
        'checks': checks,
        'not_applicable': na,
        'notes': 'All checks parse /repo/src on every run and never import '
                 'or execute the package. exit 0 ok / 1 VIOLATION / 2 '
                 'ANALYSIS-ERROR. Known findings: /verif/known_findings.json.',
    }
    with open('/verif/MANIFEST.json', 'w') as fh:
        json.dump(man, fh, indent=1)
        fh.write('\n')


if __name__ == '__main__':
    main()
