"""Prints the markdown table of kept seeded changes (for DESIGN.md)."""
import glob, json, os
rows = []
for mp in sorted(glob.glob('/verif/seeded/*/meta.json')):
    m = json.load(open(mp))
    name = os.path.basename(os.path.dirname(mp))
    need = ' '.join(m.get('needs', '').split())[:170]
    rules = []
    for p, v in m['detail'].items():
        if v['rc'] == 1:
            for ln in v['lines']:
                if ln.startswith('FINDING'):
                    r = ln.split()[1]
                    if r not in rules:
                        rules.append(r)
    rows.append(f"| {name} | {m['property']} | {', '.join(rules) or '-'} | {need} |")
print('| seed | breaks | caught by | what it is / what it needs |')
print('|---|---|---|---|')
print('\n'.join(rows))
