"""Development helper: apply a behaviour-preserving refactoring diff to /repo,
run the suite and every claimed check; every check must stay at exit 0.
usage: refactor_eval.py <diff> [--keep name]"""
import json, os, subprocess, sys
PY = '/venv/bin/python'
def sh(cmd, **kw):
    return subprocess.run(cmd, shell=True, capture_output=True, text=True, **kw)
def main():
    patch = sys.argv[1]
    keep = sys.argv[sys.argv.index('--keep') + 1] if '--keep' in sys.argv else None
    assert sh('git -C /repo status --porcelain').stdout.strip() == ''
    ap = sh(f'git -C /repo apply {patch}')
    if ap.returncode != 0:
        ap = sh(f'cd /repo && patch -p1 --fuzz=3 -s < {patch}')
    if ap.returncode != 0:
        print('PATCH DOES NOT APPLY'); sh('git -C /repo reset -q --hard HEAD; git -C /repo clean -fdq src'); return 2
    res = {}
    try:
        t = sh(f'cd /repo && {PY} -m pytest -q -p no:cacheprovider 2>&1 | tail -1')
        res['tests'] = t.stdout.strip()
        man = json.load(open('/verif/MANIFEST.json'))
        alarms = {}
        for c in man['checks']:
            r = sh(f'cd /verif && {c["quick_cmd"]}')
            if r.returncode != 0:
                alarms[c['property_id']] = {'rc': r.returncode, 'lines': [
                    ln[:300] for ln in r.stdout.splitlines()
                    if ln.startswith(('FINDING', 'ANALYSIS-ERROR'))][:5]}
        res['alarms'] = alarms
    finally:
        sh('git -C /repo reset -q --hard HEAD; git -C /repo clean -fdq src')
    print(json.dumps(res, indent=1))
    if keep and '94 passed' in res['tests']:
        dst = f'/verif/refactorings/{keep}'
        os.makedirs(dst, exist_ok=True)
        sh(f'cp {patch} {dst}/patch.diff')
        why = patch.replace('refactor_', 'why_').replace('.diff', '.txt')
        if os.path.exists(why):
            sh(f'cp {why} {dst}/why.txt')
        json.dump({'alarms_when_first_run': res['alarms']}, open(f'{dst}/meta.json', 'w'), indent=1)
main()
