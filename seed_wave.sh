#!/bin/sh
# evaluate a sub-agent's output dir: seed_wave.sh <PID> <outdir> <first-number>
pid=$1; out=$2; n=$3
for i in 1 2 3; do
  [ -f $out/change_$i.diff ] || continue
  name=${pid}_$n
  echo "=== $name <- $out/change_$i.diff"
  /venv/bin/python /verif/seed_eval.py $pid $out $i --keep $name 2>&1 | grep -E 'APPLY|valid_seed|demo_.*rc|tests|FINDING|ANALYSIS' | cut -c1-260
  n=$((n+1))
done
