"""Development helper: refresh detected_by / analysis_error_in / detail of the
seeds NAMED ON THE COMMAND LINE from a `ref_all.py seeded <names>` output.
usage: seed_meta_partial.py <ref_all output> [--first] NAME...
--first also overwrites first_contact (used when the first evaluation of a
wave was disturbed by an edit in progress)."""
import json, re, sys
log = sys.argv[1]
first = '--first' in sys.argv
names = [a for a in sys.argv[2:] if not a.startswith('--')]
cur = None
res = {}
for ln in open(log):
    m = re.match(r'(\S+) (C\d\d) rc=(\d+)', ln)
    if m:
        cur = res.setdefault(m.group(1), {}).setdefault(
            m.group(2), {'rc': int(m.group(3)), 'lines': []})
    elif ln.startswith('    ') and cur is not None:
        cur['lines'].append(ln.strip())
for name in names:
    mp = f'/verif/seeded/{name}/meta.json'
    meta = json.load(open(mp))
    det = res.get(name, {})
    meta['detected_by'] = sorted(p for p, v in det.items() if v['rc'] == 1)
    meta['analysis_error_in'] = sorted(p for p, v in det.items()
                                       if v['rc'] == 2)
    if first:
        meta['first_contact'] = {'detected_by': meta['detected_by'],
                                 'analysis_error_in':
                                 meta['analysis_error_in']}
    meta['detail'] = det
    json.dump(meta, open(mp, 'w'), indent=1)
print(len(names), 'seeds updated')
