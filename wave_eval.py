"""Development helper: evaluate the deliverables of a wave of sub-agents on
scratch copies of /repo (never in /repo itself), 12 at a time.

  wave_eval.py seeds <wave dir> <first number>   change_i.diff / demo_i.py /
                                                  note_i.txt in out_<PID>/
  wave_eval.py refs  <wave dir> <first number>   refactor_i.diff / why_i.txt

A seed is kept (as /verif/seeded/<PID>_<n>/) when the patch applies, the
pinned suite still passes with it, and the demo passes without and fails
with the change.  A refactoring is kept (as /verif/refactorings/R<PID>_<n>/)
when the patch applies and the suite passes.  For every kept item all
claimed quick checks are run on the scratch copy and the first-contact
results are stored in its meta.json.
"""
import json, os, shutil, subprocess, sys, tempfile
from concurrent.futures import ThreadPoolExecutor
PY = '/venv/bin/python'
kind, wave, first = sys.argv[1], sys.argv[2], int(sys.argv[3])
pids = [c['property_id'] for c in
        json.load(open('/verif/MANIFEST.json'))['checks']]


def sh(cmd, **kw):
    return subprocess.run(cmd, shell=True, capture_output=True, text=True,
                          **kw)


def scratch():
    d = tempfile.mkdtemp(prefix='dtv_w_')
    for f in ('src', 'setup.cfg', 'setup.py', 'tox.ini', 'pyproject.toml'):
        src = '/repo/' + f
        if os.path.isdir(src):
            shutil.copytree(src, d + '/' + f)
        elif os.path.exists(src):
            shutil.copy(src, d + '/' + f)
    return d


def checks(d):
    env = dict(os.environ, DTVERIF_REPO=d, DTVERIF_OUT=d + '/out')
    res = {}
    for pid in pids:
        p = subprocess.run([PY, '-m', 'dtverif', 'check', pid, '--tier',
                            'quick'], cwd='/verif', env=env,
                           capture_output=True, text=True)
        if p.returncode:
            res[pid] = {'rc': p.returncode, 'lines': [
                ln[:300] for ln in p.stdout.splitlines()
                if ln.startswith(('FINDING', 'ANALYSIS-ERROR'))][:4]}
    return res


def one(job):
    pid, i, name = job
    out = f'{wave}/out_{pid}'
    d = scratch()
    try:
        env = dict(os.environ, PYTHONPATH=d + '/src')
        if kind == 'seeds':
            patch, demo, note = (f'{out}/change_{i}.diff',
                                 f'{out}/demo_{i}.py', f'{out}/note_{i}.txt')
            base = sh(f'{PY} {demo}', env=env, cwd='/tmp')
        else:
            patch, note = f'{out}/refactor_{i}.diff', f'{out}/why_{i}.txt'
        ap = sh(f'patch -p1 -s --fuzz=3 -d {d} -i {patch}')
        if ap.returncode:
            return name, 'PATCH DOES NOT APPLY', None
        t = sh(f'cd {d} && {PY} -m pytest -q -p no:cacheprovider 2>&1 '
               '| tail -1', env=env)
        tests = t.stdout.strip()
        if '94 passed' not in tests:
            return name, f'TESTS: {tests}', None
        if kind == 'seeds':
            ch = sh(f'{PY} {demo}', env=env, cwd='/tmp')
            if base.returncode != 0 or ch.returncode != 1:
                return name, (f'DEMO pristine rc={base.returncode} '
                              f'changed rc={ch.returncode}'), None
        res = checks(d)
        if kind == 'seeds':
            dst = f'/verif/seeded/{name}'
            os.makedirs(dst, exist_ok=True)
            shutil.copy(patch, dst + '/patch.diff')
            shutil.copy(demo, dst + '/demo.py')
            fc = {'detected_by': sorted(k for k, v in res.items()
                                        if v['rc'] == 1),
                  'analysis_error_in': sorted(k for k, v in res.items()
                                              if v['rc'] != 1)}
            json.dump({'property': pid,
                       'needs': open(note).read()
                       if os.path.exists(note) else '',
                       'ran': ['patch applied to a scratch copy of /repo',
                               'pytest (94 passed)',
                               'demo.py: PASS pristine / FAIL changed',
                               'dtverif check (all claimed properties)'],
                       'detected_by': fc['detected_by'],
                       'analysis_error_in': fc['analysis_error_in'],
                       'first_contact': fc, 'detail': res},
                      open(dst + '/meta.json', 'w'), indent=1)
        else:
            dst = f'/verif/refactorings/{name}'
            os.makedirs(dst, exist_ok=True)
            shutil.copy(patch, dst + '/patch.diff')
            if os.path.exists(note):
                shutil.copy(note, dst + '/why.txt')
            json.dump({'alarms_when_first_run': res},
                      open(dst + '/meta.json', 'w'), indent=1)
        return name, 'kept', res
    finally:
        shutil.rmtree(d, ignore_errors=True)


jobs = []
for pid in pids:
    n = first
    for i in (1, 2, 3, 4):
        f = f'{wave}/out_{pid}/' + ('change' if kind == 'seeds'
                                    else 'refactor') + f'_{i}.diff'
        if os.path.exists(f):
            name = (f'{pid}_{n}' if kind == 'seeds' else f'R{pid}_{n}')
            if pid == 'C04' and kind == 'refs':
                name = f'RC04_{n + 1}'
            jobs.append((pid, i, name))
            n += 1
with ThreadPoolExecutor(12) as ex:
    results = list(ex.map(one, jobs))
for name, status, res in results:
    if res is None:
        print(name, status)
        continue
    caught = sorted(k for k, v in res.items() if v['rc'] == 1)
    ae = sorted(k for k, v in res.items() if v['rc'] != 1)
    print(name, status, 'findings:', caught, 'AE:', ae)
    for k, v in res.items():
        for ln in v['lines'][:2]:
            print('     ', k, ln[:200])
